#!/venv/bin/python
"""writes pv/pinned/nist.json: the NIST isotope table (symbol -> [[mass number, mass, abundance], ...]) as read by pv/refchem.py's own
reader from the chem.txt of /repo at the time of pinning.  The checks use this copy - not the file of the tree under test - for every
element that has no literal in pv/refchem.py, so a changed table entry in the tree is seen.  Run by hand, never by a check."""
import json, os, sys
sys.path.insert(0, os.path.dirname(os.path.dirname(os.path.abspath(__file__))))
from pv import refchem
t = refchem.read_chem_txt('/repo/src/peptacular/data/chem.txt')
for sym, rows in refchem.ISOTOPES.items():
    f = {a: (m, ab) for a, m, ab in t[sym]}
    for a, m, ab in rows:
        assert abs(f[a][0] - m) < 1e-9 and abs(f[a][1] - ab) < 1e-9, (sym, a)
out = os.path.join(os.path.dirname(os.path.dirname(os.path.abspath(__file__))), 'pv', 'pinned', 'nist.json')
json.dump({k: [list(r) for r in v] for k, v in sorted(t.items())}, open(out, 'w'), indent=0)
print(len(t), 'elements ->', out)
