#!/bin/sh
# usage: tools/sedmut.sh <ID> <path-under-repo> <sed-expr> [--tests]
# quick sensitivity probe: scratch copy of /repo/src with one sed edit; runs the property's quick check on it.
ID="$1"; F="$2"; EXPR="$3"
SCR="$(mktemp -d /tmp/pvscratch.XXXXXX)"
trap 'rm -rf "$SCR"' EXIT INT TERM
mkdir -p "$SCR/repo"
rsync -a --exclude '__pycache__' /repo/src /repo/tests "$SCR/repo/" || exit 2
sed -i "$EXPR" "$SCR/repo/$F"
if diff -q "/repo/$F" "$SCR/repo/$F" >/dev/null; then echo "sedmut: no change made"; exit 2; fi
diff -u "/repo/$F" "$SCR/repo/$F" | sed -n 3,12p
if [ "$4" = "--tests" ]; then ( cd "$SCR/repo" && PYTHONPATH="$SCR/repo/src" /venv/bin/python -m pytest -q -p no:cacheprovider 2>&1 | tail -1 ); fi
cd "$(dirname "$0")/.." && PV_REPO_SRC="$SCR/repo/src" ./check "$ID" quick 2>&1 | grep -E "VIOLATION|signature=|HARNESS|quick seed" | cut -c1-220
