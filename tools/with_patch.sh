#!/bin/sh
# usage: tools/with_patch.sh [-R] <patch.diff> <command...>
# Runs <command> with PV_REPO_SRC pointing at a scratch copy of /repo/src with the patch applied
# (-R: reverse-applied).  The scratch copy lives outside /repo and /verif and is removed afterwards.
REV=""
if [ "$1" = "-R" ]; then REV="-R"; shift; fi
PATCH="$(readlink -f "$1")"; shift
SCR="$(mktemp -d /tmp/pvscratch.XXXXXX)"
trap 'rm -rf "$SCR"' EXIT INT TERM
mkdir -p "$SCR/repo"
rsync -a --exclude '__pycache__' /repo/src /repo/tests "$SCR/repo/" || exit 2
( cd "$SCR/repo" && patch -s -p1 $REV < "$PATCH" ) || { echo "with_patch: patch failed" >&2; exit 2; }
if [ "$1" = "--tests" ]; then
  shift
  ( cd "$SCR/repo" && PYTHONPATH="$SCR/repo/src" /venv/bin/python -m pytest -q -p no:cacheprovider -x 2>&1 | tail -2 )
fi
PV_REPO_SRC="$SCR/repo/src" "$@"
