#!/venv/bin/python
"""rewrites Appendix B of DESIGN.md (seed -> checks table) from seeded/*/meta.json"""
import glob, json, os, re
here = os.path.dirname(os.path.dirname(os.path.abspath(__file__)))
rows = []
for m in sorted(glob.glob(os.path.join(here, 'seeded', 'C*', 'meta.json'))):
    d = json.load(open(m))
    name = os.path.basename(os.path.dirname(m))
    checks = ', '.join(k for k, v in d.get('checks', {}).items() if v == 1) or '-'
    sigs = '; '.join(f'`{s}`' for s in d.get('violation_signatures', [])[:3]) or ('(obsolete: ' + d.get('obsolete', 'equivalent to the repaired code') + ')')
    rows.append(f"| {name} | {d.get('needs_to_manifest', '').replace('|', '/')} | {checks} | {sigs} |")
p = os.path.join(here, 'DESIGN.md')
s = open(p).read()
head = s[:s.index('## Appendix B')]
new = head + "## Appendix B — seeded changes and the checks that report them\n\nEach row is a directory under `/verif/seeded/` (variants A-B: round 1, C-E: round 2, F-G: round 3); `checks` are the quick checks that exit 1 on it.\n`seeded/RESULTS.md` is the last re-validation of all of them against the current tree (`seeded/run_all.sh`).\n\n| seed | needs, to manifest | checks | first signatures |\n|---|---|---|---|\n" + '\n'.join(rows) + '\n'
open(p, 'w').write(new)
print(len(rows), 'rows')
