#!/venv/bin/python
"""Regenerates MANIFEST.json from the check modules present in pv/checks and validates it and all
evidence files against the schemas."""
import importlib, json, os, sys
HERE = os.path.dirname(os.path.dirname(os.path.abspath(__file__)))
sys.path[:0] = [HERE, os.path.join(HERE, '.deps'), os.environ.get('PV_REPO_SRC', '/repo/src')]
import jsonschema

props = [json.loads(l) for l in open(os.path.join(HERE, 'properties.jsonl'))]
checks, na = [], []
for p in props:
    pid = p['id']
    path = os.path.join(HERE, 'pv', 'checks', pid.lower() + '.py')
    if not os.path.exists(path):
        na.append({'property_id': pid, 'reason': 'check not built yet in this session (generated-input search applies; see DESIGN.md section 3)'})
        continue
    mod = importlib.import_module(f'pv.checks.{pid.lower()}')
    if getattr(mod, 'NOT_APPLICABLE', None):
        na.append({'property_id': pid, 'reason': mod.NOT_APPLICABLE})
        continue
    checks.append({
        'property_id': pid,
        'quick_cmd': f'./check {pid} quick',
        'thorough_cmd': f'./check {pid} thorough',
        'evidence_file': f'/verif/evidence/{pid}.json',
        'replay_cmd_template': f'./check {pid} --replay {{path}}',
        'engine': 'pv',
        'level_claimed': {
            'category': 'exploration',
            'text': getattr(mod, 'LEVEL_TEXT', 'No counter-example among the generated / enumerated cases of the stated distribution; '
                                               'absence is not established outside the enumerated sub-space.'),
            'design_ref': f'DESIGN.md section 3, {pid}',
        },
        'level_note': getattr(mod, 'LEVEL_NOTE', '; '.join(getattr(mod, 'ASSUMPTIONS', [])) or 'oracle code in /verif/pv is trusted'),
        'technique': getattr(mod, 'TECHNIQUE', 'property-based testing (Hypothesis) against an independent oracle'),
    })
man = {
    'version': 1,
    'setup_cmd': './setup.sh',
    'hooks': {
        'guard': 'PEPTACULAR_VERIF',
        'enable': 'no source hooks are needed: every observation point is a public function or field; checks import /repo/src directly (PV_REPO_SRC)',
        'baseline_off_cmd': 'cd /repo && /venv/bin/python -m pytest -ra -q -p no:cacheprovider --timeout=900 --continue-on-collection-errors',
        'source_commits': [],
        'add_only': True,
    },
    'engines': [
        {'name': 'pv', 'path': '/verif/pv', 'serves_properties': [c['property_id'] for c in checks],
         'kind_free_text': 'Hypothesis strategies / exhaustive enumeration / atheris fuzzing sharded over 16 processes; collect -> classify -> shrink; independent reference models in pv/refchem.py, pv/model.py, pv/obo.py'},
    ],
    'checks': checks,
    'not_applicable': na,
    'notes': 'All checks: ./check <ID> quick|thorough ; replay: ./check <ID> --replay <file>. VERIF_SEED selects the seed. Known findings: known_findings.json.',
}
json.dump(man, open(os.path.join(HERE, 'MANIFEST.json'), 'w'), indent=1)
jsonschema.validate(man, json.load(open('/root/.vp/MANIFEST.schema.json')))
es = json.load(open('/root/.vp/EVIDENCE.schema.json'))
bad = 0
for c in checks:
    f = os.path.join(HERE, 'evidence', c['property_id'] + '.json')
    if not os.path.exists(f):
        print('missing evidence', f); bad += 1; continue
    try:
        jsonschema.validate(json.load(open(f)), es)
    except Exception as e:
        print('invalid evidence', f, str(e)[:300]); bad += 1
print(f'MANIFEST ok: {len(checks)} checks, {len(na)} not yet claimed, {bad} evidence problems')
