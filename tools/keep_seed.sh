#!/bin/sh
# usage: tools/keep_seed.sh <ID> <variant> "<needs to manifest>" [check-ID ...]
# Re-confirms a sub-agent's seeded change and stores it under /verif/seeded/<ID>-<variant>/
ID="$1"; V="$2"; NEEDS="$3"; shift 3
SRC=/tmp/seeded-out/$ID
DST="$(dirname "$0")/../seeded/$ID-$V"
mkdir -p "$DST"
cp "$SRC/$V.diff" "$DST/patch.diff"; cp "$SRC/demo_$V.py" "$DST/demo.py"
sed -i "s#/tmp/wt-$ID#/repo#g" "$DST/demo.py" 2>/dev/null
OUT=$("$(dirname "$0")/try_seed.sh" "$ID" "$DST/patch.diff" "$DST/demo.py" "$@" 2>&1)
echo "$OUT" | grep -E "^tests|^demo|^check|signature=" | cut -c1-200
/venv/bin/python - "$ID" "$V" "$NEEDS" "$DST" <<PY
import json,sys,re
pid,v,needs,dst=sys.argv[1:5]
out='''$OUT'''
sigs=sorted(set(re.findall(r'signature=(\S+)',out)))
known=json.load(open('/verif/known_findings.json'))
ks={e['signature'] for e in known['findings'] if e['status']=='known-finding'}
new=[s for s in sigs if s not in ks]
meta={'breaks_property':pid,'variant':v,'origin':'independent sub-agent given only the property text and a scratch worktree',
 'needs_to_manifest':needs,
 'confirmed':{'pinned_tests_with_change':re.search(r'tests-with-change: (.*)',out).group(1),
   'demo_with_change':re.search(r'demo-with-change: (.*)',out).group(1),'demo_without_change':re.search(r'demo-without-change: (.*)',out).group(1)},
 'ran':['tools/try_seed.sh (scratch copy of /repo/src + patch; pytest; demo with/without; ./check <ID> quick with PV_REPO_SRC)'],
 'checks':{m.group(1):int(m.group(2)) for m in re.finditer(r'check (\S+) quick: exit (\d+)',out)},
 'violation_signatures':new,'detected':bool(new)}
json.dump(meta,open(dst+'/meta.json','w'),indent=1)
print('detected' if new else 'MISSED', new[:3])
PY
