#!/bin/sh
# usage: tools/try_seed.sh <ID> <patch.diff> <demo.py> [check-ID ...]
# Confirms a seeded change in a scratch copy: pinned tests pass with it, demo fails with it and passes without it;
# then runs the quick check(s) against it.
ID="$1"; PATCH="$(readlink -f "$2")"; DEMO="$(readlink -f "$3")"; shift 3
CHECKS="${*:-$ID}"
SCR="$(mktemp -d /tmp/pvscratch.XXXXXX)"
trap 'rm -rf "$SCR"' EXIT INT TERM
mkdir -p "$SCR/repo" "$SCR/clean"
rsync -a --exclude '__pycache__' /repo/src /repo/tests "$SCR/repo/"
rsync -a --exclude '__pycache__' /repo/src "$SCR/clean/"
( cd "$SCR/repo" && patch -s -p1 -F3 --ignore-whitespace --no-backup-if-mismatch < "$PATCH" ) || { echo "PATCH-FAILED"; exit 2; }
T=$( cd "$SCR/repo" && PYTHONPATH="$SCR/repo/src" /venv/bin/python -m pytest -q -p no:cacheprovider 2>&1 | tail -1 )
echo "tests-with-change: $T"
PYTHONPATH="$SCR/repo/src" /venv/bin/python -W ignore "$DEMO" >/dev/null 2>&1; echo "demo-with-change: exit $?"
PYTHONPATH="$SCR/clean/src" /venv/bin/python -W ignore "$DEMO" >/dev/null 2>&1; echo "demo-without-change: exit $?"
cd "$(dirname "$0")/.."
for C in $CHECKS; do
  OUT=$(PV_REPO_SRC="$SCR/repo/src" ./check "$C" quick 2>&1); RC=$?
  echo "check $C quick: exit $RC"; echo "$OUT" | grep -E "signature=|HARNESS" | cut -c1-180 | head -6
done
rm -f replays/*/new-*.json
