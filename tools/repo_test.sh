#!/bin/sh
# runs the pinned suite of /repo; exit 0 only if nothing failed (111 passed expected)
cd /repo && /venv/bin/python -m pytest -q -p no:cacheprovider >/tmp/pv_repo_test.log 2>&1
tail -1 /tmp/pv_repo_test.log
grep -q "111 passed" /tmp/pv_repo_test.log && ! grep -q " failed" /tmp/pv_repo_test.log
