#!/bin/sh
# Offline setup: third-party tooling the checks need, installed beside (not into) /venv.
# Idempotent; safe to call from every check.
set -e
HERE="$(cd "$(dirname "$0")" && pwd)"
DEPS="$HERE/.deps"
PY=/venv/bin/python
WH=/opt/veriftools/wheels
mkdir -p "$DEPS"
need=""
PYTHONPATH="$DEPS" $PY -c "import hypothesis" 2>/dev/null || need="$need hypothesis"
PYTHONPATH="$DEPS" $PY -c "import jsonschema" 2>/dev/null || need="$need jsonschema"
PYTHONPATH="$DEPS" $PY -c "import atheris" 2>/dev/null || need="$need atheris"
if [ -n "$need" ]; then
  PIP_NO_INDEX=1 /venv/bin/pip install --quiet --no-index --find-links "$WH" --target "$DEPS" $need >/dev/null 2>&1 || {
    echo "setup: pip install failed for:$need" >&2; exit 2; }
fi
PYTHONPATH="$DEPS" $PY -c "import hypothesis, jsonschema" || { echo "setup: imports failed" >&2; exit 2; }
echo "setup ok"
