"""
Hypothesis strategies (construction, not rejection).  All numerals are built from ASCII digits.
"""
from functools import lru_cache

from hypothesis import strategies as st

from pv import obo, refchem

DIG = '0123456789'
AA26 = refchem.ALL_LETTERS
AA_MASS = refchem.MASS_LETTERS
AA20 = 'ACDEFGHIKLMNPQRSTVWY'


def _bal(s, o='[', c=']'):
    d = 0
    for ch in s:
        if ch == o:
            d += 1
        elif ch == c:
            d -= 1
            if d < 0:
                return False
    return d == 0


@lru_cache(None)
def vocab():
    """name lists for the spelling classes (excluded by construction: names the bracket grammar cannot carry)"""
    u = [e for e in obo.unimod() if _bal(e['name']) and '{' not in e['name'] and '}' not in e['name']]
    p = [e for e in obo.psimod() if _bal(e['name']) and '|' not in e['name'] and '#' not in e['name']]
    x = [e for e in obo.xlmod() if _bal(e['name']) and '|' not in e['name'] and '#' not in e['name']]
    return {'unimod': u, 'psimod': p, 'xlmod': x, 'mono': obo.monosaccharides()}


# ---- numerals -----------------------------------------------------------------------------------

@lru_cache(None)
def nat(max_digits=3, nonzero_lead=True):
    first = st.sampled_from('123456789') if nonzero_lead else st.sampled_from(DIG)
    return st.tuples(first, st.text(DIG, max_size=max_digits - 1)).map(''.join)


@lru_cache(None)
def int_text():
    return st.tuples(st.sampled_from(['', '+', '-']), nat(3)).map(''.join)


@lru_cache(None)
def dec_text(max_frac=5):
    return st.tuples(st.sampled_from(['', '+', '-']), st.one_of(nat(3), st.just('0')), st.just('.'),
                     st.text(DIG, min_size=1, max_size=max_frac)).map(''.join)


@lru_cache(None)
def extreme_dec_text():
    """decimals whose float repr() uses exponent notation (below 1e-4): written plainly, serialized as 1e-05 ...
    (values of 1e16 and more have the same property but swamp every mass tolerance of the checks that share this generator)"""
    return st.tuples(st.sampled_from(['', '+', '-']),
                     st.sampled_from(['0.00001', '0.00002', '0.000015', '0.0000001', '0.00009999', '0.0', '0.00010'])).map(''.join)


@lru_cache(None)
def numeric_text():
    return st.one_of(int_text(), dec_text(), dec_text(), int_text(), extreme_dec_text())


# ---- modification texts (C01: any spelling; resolvability does not matter) -----------------------

_INFO_ALPHA = 'abcdefghijklmnopqrstuvwxyzABCDEFGHIJKLMNOPQRSTUVWXYZ0123456789 .,;:()+-_/=%\'"!*&~'


@lru_cache(None)
def info_text():
    return st.text(_INFO_ALPHA, min_size=1, max_size=12).map(lambda s: 'INFO:' + s)


@lru_cache(None)
def formula_text():
    el = st.sampled_from(['C', 'H', 'N', 'O', 'S', 'P', 'Na', 'Cl', 'Fe', 'Se'])
    iso = st.sampled_from(['13C', '15N', '18O', '2H', '17O', '34S'])
    cnt = st.one_of(st.just(''), nat(2), nat(2).map(lambda s: '-' + s))
    plain = st.tuples(el, cnt).map(''.join)
    brk = st.tuples(iso, cnt).map(lambda t: '[' + t[0] + t[1] + ']')
    return st.lists(st.one_of(plain, plain, brk), min_size=1, max_size=5).map(lambda xs: 'Formula:' + ''.join(xs))


@lru_cache(None)
def glycan_text():
    names = ['Hex', 'HexNAc', 'Fuc', 'NeuAc', 'Neu5Ac', 'Neu5Gc', 'dHex', 'Pent', 'HexA', 'Sulf', 'Phospho', 'Kdn']
    return st.lists(st.tuples(st.sampled_from(names), st.one_of(st.just(''), nat(1))).map(''.join),
                    min_size=1, max_size=4).map(lambda xs: 'Glycan:' + ''.join(xs))


@lru_cache(None)
def prefix_case(p):
    return st.sampled_from(sorted({p, p.lower(), p.upper(), p.capitalize()}))


@lru_cache(None)
def name_text(gt_ok=True):
    v = vocab()
    un = [e['name'] for e in v['unimod'] if gt_ok or '>' not in e['name']]
    ui = [e['id'] for e in v['unimod']]
    pn = [e['name'] for e in v['psimod'] if gt_ok or '>' not in e['name']]
    pi = [e['id'] for e in v['psimod']]
    xn = [e['name'] for e in v['xlmod'] if gt_ok or '>' not in e['name']]
    xi = [e['id'] for e in v['xlmod']]
    colon = [n for n in un if ':' in n]
    brk = [n for n in un + pn if '[' in n]

    def pre(ps, body):
        return st.tuples(st.one_of(*[prefix_case(p) for p in ps]), body).map(lambda t: t[0] + ':' + t[1])

    alts = [
        st.sampled_from(un), st.sampled_from(un), st.sampled_from(colon), st.sampled_from(brk),
        pre(['U', 'UNIMOD'], st.sampled_from(un)), pre(['U', 'UNIMOD'], st.sampled_from(ui)),
        st.sampled_from(pn), pre(['M', 'MOD', 'PSI-MOD'], st.sampled_from(pn)),
        pre(['M', 'MOD', 'PSI-MOD'], st.sampled_from(pi)),
        pre(['X', 'XLMOD'], st.sampled_from(xi)), pre(['X', 'XLMOD'], st.sampled_from(xn)),
        st.sampled_from(['Oxidation', 'Phospho', 'Acetyl', 'Carbamidomethyl', 'Deamidated', 'Methyl']),
    ]
    if gt_ok:
        alts.append(st.sampled_from([n for n in un if '>' in n]))
    return st.one_of(*alts)


@lru_cache(None)
def obs_text():
    return numeric_text().map(lambda s: 'Obs:' + s)


@lru_cache(None)
def prefixed_shift_text():
    sgn = st.sampled_from(['+', '-'])
    return st.tuples(st.sampled_from(['U', 'M', 'X', 'R', 'G', 'UNIMOD', 'MOD']), sgn,
                     st.one_of(nat(3), dec_text().map(lambda s: s.lstrip('+-')))).map(lambda t: f'{t[0]}:{t[1]}{t[2]}')


@lru_cache(None)
def base_text(gt_ok=True):
    return st.one_of(name_text(gt_ok), name_text(gt_ok), numeric_text(), numeric_text(), formula_text(),
                     glycan_text(), obs_text(), info_text(), prefixed_shift_text())


@lru_cache(None)
def tag_text():
    grp = st.tuples(st.sampled_from(['g', 'XL', 'BRANCH', 's']), st.one_of(st.just(''), nat(1))).map(''.join)
    score = st.one_of(st.just(''), st.tuples(st.sampled_from(['0', '1']), st.just('.'), st.text(DIG, min_size=1, max_size=2))
                      .map(lambda t: '(' + ''.join(t) + ')'))
    return st.tuples(grp, score).map(lambda t: '#' + t[0] + t[1])


@lru_cache(None)
def mod_text(gt_ok=True):
    """any supported spelling incl. '#'-tags and '|' alternatives"""
    b = base_text(gt_ok)
    tagged = st.tuples(st.one_of(name_text(gt_ok), numeric_text()), tag_text()).map(''.join)
    bare_tag = tag_text()
    alt = st.lists(st.one_of(b, info_text()), min_size=2, max_size=3).map('|'.join)
    return st.one_of(b, b, b, b, tagged, bare_tag, alt)


@lru_cache(None)
def mult():
    return st.one_of(st.just(1), st.just(1), st.just(1), st.integers(2, 9), st.integers(2, 9), st.integers(10, 13))  # also two digits


def mod(gt_ok=True, mults=True, text=None):
    t = text if text is not None else mod_text(gt_ok)
    return st.tuples(t, mult() if mults else st.just(1)).map(list)


def mods(min_size=0, max_size=3, **kw):
    return st.lists(mod(**kw), min_size=min_size, max_size=max_size)


def sequence(alphabet=AA26, min_size=1, max_size=30):
    return st.text(alphabet, min_size=min_size, max_size=max_size)


ISOTOPE_LABELS = ['13C', '15N', '18O', '17O', '34S', 'D', 'T', '2H', '12C', '14N']


@st.composite
def intervals_for(draw, n, mod_strategy, max_intervals=3, min_len=1):
    """non-overlapping intervals anywhere in [0,n] incl. at 0 and ending at n, possibly adjacent"""
    if n < min_len:
        return []
    k = draw(st.integers(0, max_intervals))
    if k == 0:
        return []
    # choose 2k distinct-or-adjacent cut points by construction
    pts = sorted(draw(st.lists(st.integers(0, n), min_size=2 * k, max_size=2 * k)))
    out = []
    last_end = 0
    for a, b in zip(pts[::2], pts[1::2]):
        a = max(a, last_end)
        if b - a < min_len:
            continue
        out.append([a, b, draw(st.booleans()), draw(mod_strategy)])
        last_end = b
    return out


@st.composite
def internal_for(draw, n, mod_list_strategy, max_sites=4):
    if n == 0:
        return []
    idx = sorted(set(draw(st.lists(st.integers(0, n - 1), max_size=max_sites))))
    return [[i, draw(mod_list_strategy)] for i in idx]


def static_rule(seq_letters=AA26, mod_strategy=None, max_targets=3):
    ms = mod_strategy if mod_strategy is not None else mods(1, 2, gt_ok=False, mults=False)
    tg = st.lists(st.one_of(st.sampled_from(sorted(seq_letters)), st.sampled_from(['N-Term', 'C-Term'])),
                  min_size=1, max_size=max_targets, unique=True)
    return st.tuples(ms, tg).map(list)


ADDUCT_IONS = ['H+', 'Na+', 'K+', 'Li+', 'Mg2+', 'Ca2+', 'Cl-', 'I-', 'e-']


def adduct_text(counts=(-2, -1, 1, 2, 3), explicit_plus=None):
    def one(t):
        ion, c, plus = t
        sign = '-' if c < 0 else ('+' if plus else '')
        n = '' if abs(c) == 1 else str(abs(c))
        return f'{sign}{n}{ion}'
    item = st.tuples(st.sampled_from(ADDUCT_IONS), st.sampled_from(list(counts)),
                     st.booleans() if explicit_plus is None else st.just(explicit_plus)).map(one)
    return st.lists(item, min_size=1, max_size=3, unique_by=lambda s: s.lstrip('+-0123456789')).map(','.join)


def pep_model(alphabet=AA26, min_len=1, max_len=30, kinds=None, mod_strategy=None, mod_list=None,
              allow_empty=True, charge=True, rule_targets=None, max_intervals=3, mults=True, isotopes=None,
              static_mod_text=None, static_max_mult=1):
    """AnnotModel by construction. kinds: subset of model.KINDS to allow (None = all).
    All sub-strategies are built once here (building strategies inside a draw is very slow)."""
    from pv.model import KINDS, empty_pep
    kinds = set(KINDS if kinds is None else kinds)
    one = mod_strategy if mod_strategy is not None else mod(mults=mults)
    lst = mod_list if mod_list is not None else st.lists(one, min_size=1, max_size=3)
    lst_or_empty = st.one_of(st.just([]), lst)
    if static_mod_text is None:
        static_mod_text = mod_text(gt_ok=False) if mod_strategy is None else mod_strategy.map(lambda m: m[0])
    one_static = st.tuples(static_mod_text, st.just(1) if static_max_mult == 1 else
                           st.sampled_from([1, 1, 1] + list(range(2, static_max_mult + 1)))).map(list)
    static_mods = st.lists(one_static, min_size=1, max_size=2)
    iso = st.lists(st.sampled_from(isotopes or ISOTOPE_LABELS), min_size=1, max_size=2, unique=True)
    chg = st.one_of(st.integers(1, 9), st.integers(1, 9), st.integers(-5, -1), st.integers(-5, -1), st.integers(10, 15), st.integers(-12, -10))
    add = adduct_text()
    seq_s = sequence(alphabet, min_len, max_len)
    term_targets = st.sampled_from(['N-Term', 'C-Term'])

    @st.composite
    def build(draw):
        if allow_empty and rare(draw, 60):
            return empty_pep('')
        seq = draw(seq_s)
        n = len(seq)

        def opt(strategy, empty):
            return draw(strategy) if draw(st.integers(0, 2)) == 1 else empty

        p = empty_pep(seq)
        if 'labile' in kinds:
            p['labile'] = opt(lst, [])
        if 'unknown' in kinds:
            p['unknown'] = opt(lst, [])
        if 'nterm' in kinds:
            p['nterm'] = opt(lst, [])
        if 'cterm' in kinds:
            p['cterm'] = opt(lst, [])
        if 'internal' in kinds and n:
            idx = sorted(set(draw(st.lists(st.integers(0, n - 1), max_size=4))))
            p['internal'] = [[i, draw(lst)] for i in idx]
        if 'intervals' in kinds and draw(st.integers(0, 2)) == 1:
            k = draw(st.integers(1, max_intervals))
            pts = sorted(draw(st.lists(st.integers(0, n), min_size=2 * k, max_size=2 * k)))
            last_end = 0
            for a, b in zip(pts[::2], pts[1::2]):
                a = max(a, last_end)
                if b - a < 1:
                    continue
                p['intervals'].append([a, b, draw(st.booleans()), draw(lst_or_empty)])
                last_end = b
        if 'static' in kinds and draw(st.integers(0, 2)) == 1:
            letters = sorted(rule_targets or (set(seq) | {'M', 'C'}))
            for _ in range(draw(st.integers(1, 2))):
                tg = draw(st.lists(st.one_of(st.sampled_from(letters), st.sampled_from(letters), term_targets),
                                   min_size=1, max_size=3, unique=True))
                p['static'].append([draw(static_mods), tg])
        if 'isotope' in kinds:
            p['isotope'] = opt(iso, [])
        if 'charge' in kinds and charge:
            p['charge'] = opt(chg, None)
            if p['charge'] is not None and 'adducts' in kinds:
                p['adducts'] = opt(add, None)
        return p

    return build()


def rare(draw, k):
    """True with probability ~1/k (the middle value of a bounded range is not favoured by Hypothesis
    and shrinking moves away from it)"""
    return draw(st.integers(0, k - 1)) == k // 2 + 1


@lru_cache(None)
def style():
    return st.fixed_dictionaries({'charge_plus': st.booleans(), 'unknown_split': st.booleans(),
                                  'unknown_first': st.booleans(), 'glob_rev': st.booleans()})


# ---- modification texts with an a-priori mass (C02, C03, C07, C11, C12, C18) ------------------------

_GLY = ['Hex', 'HexNAc', 'Fuc', 'NeuAc', 'dHex', 'Pent', 'HexA', 'Kdn', 'NeuGc', 'HexN']


@lru_cache(None)
def mass_formula_text(max_tokens=4, fractional=False):
    el = st.sampled_from(['C', 'H', 'N', 'O', 'S', 'P'])
    iso = st.sampled_from(['13C', '15N', '18O', 'D', 'T', '2H', '17O', '34S'])
    cnt = st.one_of(st.just(''), st.integers(1, 20).map(str), st.integers(-5, -1).map(str))
    plain = st.tuples(el, cnt).map(''.join)
    brk = st.tuples(iso, cnt).map(lambda t: '[' + t[0] + t[1] + ']')
    return st.lists(st.one_of(plain, plain, plain, brk), min_size=1, max_size=max_tokens).map(lambda xs: 'Formula:' + ''.join(xs))


@lru_cache(None)
def _gly_names():
    """the ten common names (drawn more often) and every other bundled monosaccharide name or synonym made of letters and digits
    (with counts 1..4 and no name twice, longest-name-first is the only reading of what is written)"""
    from pv import obo
    rest = []
    for e in obo.monosaccharides():
        for nm in [e['name']] + list(e['synonyms']):
            if nm.isalnum() and nm not in _GLY and nm not in rest:
                rest.append(nm)
    return list(_GLY), sorted(rest)


@lru_cache(None)
def mass_glycan_text():
    common, rest = _gly_names()
    name = st.one_of(st.sampled_from(common), st.sampled_from(common + rest))
    item = st.tuples(name, st.integers(1, 4)).map(lambda t: f'{t[0]}{t[1]}')
    return st.lists(item, min_size=1, max_size=3, unique_by=lambda s: s.rstrip('0123456789')).map(lambda xs: 'Glycan:' + ''.join(xs))


@lru_cache(None)
def mass_unimod_text(gt_ok=True, chnops=False):
    from pv import refmods
    es = [e for e in vocab()['unimod'] if '|' not in e['name'] and '#' not in e['name'] and '@' not in e['name']
          and (gt_ok or '>' not in e['name']) and (not chnops or (e['comp'] is not None and refmods.chnops_only(e['comp'])))]
    shared = {e['name'] for e in vocab()['psimod']}
    names = [e['name'] for e in es if e['name'] not in shared]
    ids = [e['id'] for e in es]
    common = [n for n in ['Oxidation', 'Phospho', 'Acetyl', 'Carbamidomethyl', 'Deamidated', 'Methyl', 'Amidated', 'Label:13C(6)15N(2)',
                          'TMT6plex', 'GG', 'Dimethyl:2H(4)'] if n in names]
    pre = st.sampled_from(['U:', 'UNIMOD:', 'u:', 'Unimod:'])
    return st.one_of(st.sampled_from(names), st.sampled_from(common), st.tuples(pre, st.sampled_from(names)).map(''.join),
                     st.tuples(pre, st.sampled_from(ids)).map(''.join))


@lru_cache(None)
def mass_psi_text(mono=True):
    from pv import refmods
    es = [e for e in vocab()['psimod'] if refmods.psi_self_consistent(e, True) and refmods.psi_self_consistent(e, False)
          and refmods.chnops_only(e['comp']) and '>' not in e['name'] and '@' not in e['name']]
    pre = st.sampled_from(['MOD:', 'M:', 'PSI-MOD:', 'mod:'])
    return st.one_of(st.tuples(pre, st.sampled_from([e['id'] for e in es])).map(''.join),
                     st.tuples(pre, st.sampled_from([e['name'] for e in es])).map(''.join),
                     st.sampled_from([e['name'] for e in es]))


@lru_cache(None)
def mass_mod_text(kinds=('num', 'formula', 'unimod', 'glycan'), gt_ok=True, chnops=False, decorate=False):
    alts = []
    if 'num' in kinds:
        alts += [numeric_text(), numeric_text()]
    if 'formula' in kinds:
        alts += [mass_formula_text(), mass_formula_text()]
    if 'unimod' in kinds:
        alts += [mass_unimod_text(gt_ok, chnops), mass_unimod_text(gt_ok, chnops)]
    if 'glycan' in kinds:
        alts += [mass_glycan_text()]
    if 'psi' in kinds:
        alts += [mass_psi_text()]
    if 'obs' in kinds:
        alts += [obs_text()]
    if 'shift' in kinds:
        alts += [prefixed_shift_text()]
    base = st.one_of(*alts)
    if not decorate:
        return base
    tagged = st.tuples(base, tag_text()).map(''.join)
    alt_info_last = base.map(lambda s: s + '|INFO:note')
    alt_info_first = base.map(lambda s: 'INFO:x|' + s)
    # two resolvable alternatives: the first one counts (for the mass and for the composition / residual alike)
    alt_two = st.tuples(base, base).map('|'.join)
    return st.one_of(base, base, base, tagged, alt_info_last, alt_info_first, tag_text(), alt_two)


def mass_mod(kinds=('num', 'formula', 'unimod', 'glycan'), max_mult=3, **kw):
    return st.tuples(mass_mod_text(kinds, **kw), st.sampled_from([1, 1, 1] + list(range(2, max_mult + 1)))).map(list)
