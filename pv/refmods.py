"""
Reference meaning of a modification text (mass mono/avg, composition) computed without peptacular:
numbers, prefixed shifts, Obs, Formula, Glycan (unambiguous, explicit counts), Unimod / PSI-MOD names and
accessions, '#' tags and '|' alternatives.
"""
import re
from functools import lru_cache

from pv import obo, refchem

_INT = re.compile(r'^[+-]?[0-9]+$')
_FLT = re.compile(r'^[+-]?([0-9]+\.[0-9]*|\.[0-9]+|[0-9]+)([eE][+-]?[0-9]+)?$')


@lru_cache(None)
def _tables():
    u_name = {e['name']: e for e in obo.unimod()}
    u_id = {e['id']: e for e in obo.unimod()}
    p_name = {e['name']: e for e in obo.psimod()}
    p_id = {e['id']: e for e in obo.psimod()}
    mono = {}
    for e in obo.monosaccharides():
        mono[e['name']] = e
        for s in e['synonyms']:
            mono[s] = e
    return u_name, u_id, p_name, p_id, mono


def psi_self_consistent(e, mono=True):
    """the row's tabulated mass equals the reference mass of its tabulated composition (C03 domain guard)"""
    if e['comp'] is None or (e['mono'] if mono else e['avg']) is None:
        return False
    try:
        m = refchem.comp_mass(e['comp'], mono)
    except KeyError:
        return False
    return abs(m - (e['mono'] if mono else e['avg'])) <= (1e-4 if mono else 1e-3 + 5e-6 * abs(e['avg']))


def chnops_only(comp):
    for k in comp:
        sym = re.sub(r'^\d+', '', k)
        if sym not in ('C', 'H', 'N', 'O', 'P', 'S', 'D', 'T'):
            return False
    return True


def _single(text):
    """one alternative without tag -> dict(mono, avg, comp|None) or None when it carries no mass (INFO)"""
    u_name, u_id, p_name, p_id, mono_t = _tables()
    if _INT.match(text) or _FLT.match(text):
        v = float(text)
        return dict(mono=v, avg=v, comp=None, kind='number')
    low = text.lower()
    if low.startswith('info:'):
        return None
    if low.startswith('obs:'):
        body = text.split(':', 1)[1]
        if not (_INT.match(body) or _FLT.match(body)):  # a plain decimal numeral, nothing else float() would take
            raise ValueError(f'not a number: {body!r}')
        v = float(body)
        return dict(mono=v, avg=v, comp=None, kind='obs')
    if low.startswith('formula:'):
        c = refchem.parse_formula(text.split(':', 1)[1])
        return dict(mono=refchem.comp_mass(c, True), avg=refchem.comp_mass(c, False), comp=c, kind='formula')
    if low.startswith('glycan:'):
        body = text.split(':', 1)[1]
        comp, m, a, units = {}, 0.0, 0.0, 0
        pos = 0
        names = sorted(mono_t, key=len, reverse=True)
        while pos < len(body):
            for nm in names:
                if body.startswith(nm, pos):
                    pos += len(nm)
                    mm = re.match(r'[0-9]+', body[pos:])
                    cnt = int(mm.group(0)) if mm else 1
                    pos += len(mm.group(0)) if mm else 0
                    e = mono_t[nm]
                    units += cnt
                    m += e['mono'] * cnt
                    a += e['avg'] * cnt
                    for el, n in e['comp'].items():
                        comp[el] = comp.get(el, 0) + n * cnt
                    break
            else:
                raise ValueError(f'glycan {body!r}')
        return dict(mono=m, avg=a, comp=comp, kind='glycan', units=units)
    for pre, kind in (('unimod:', 'u'), ('u:', 'u'), ('psi-mod:', 'p'), ('mod:', 'p'), ('m:', 'p'), ('xlmod:', 'x'), ('x:', 'x'),
                      ('resid:', 'r'), ('r:', 'r'), ('gno:', 'g'), ('g:', 'g')):
        if low.startswith(pre):
            body = text[len(pre):]
            if body[:1] in '+-' and (_INT.match(body) or _FLT.match(body)):
                v = float(body)
                return dict(mono=v, avg=v, comp=None, kind='shift')
            if kind == 'u':
                e = u_id.get(body) or u_name.get(body)
            elif kind == 'p':
                e = p_id.get(body) or p_name.get(body)
            else:
                e = None
            if e is None:
                raise ValueError(f'unknown {text!r}')
            return dict(mono=e['mono'], avg=e['avg'], comp=e['comp'], kind='unimod' if kind == 'u' else 'psimod')
    if text in p_name:
        e = p_name[text]
        return dict(mono=e['mono'], avg=e['avg'], comp=e['comp'], kind='psimod')
    if text in u_name:
        e = u_name[text]
        return dict(mono=e['mono'], avg=e['avg'], comp=e['comp'], kind='unimod')
    raise ValueError(f'unknown {text!r}')


def resolve(text):
    """meaning of a full modification text: first resolvable '|' alternative, '#tag' suffix ignored,
    bare '#tag' = nothing.  Returns dict(mono, avg, comp|None, kind)."""
    if isinstance(text, (int, float)):
        return dict(mono=float(text), avg=float(text), comp=None, kind='number')
    for alt in text.split('|'):
        if '#' in alt:
            if alt.startswith('#'):
                return dict(mono=0.0, avg=0.0, comp={}, kind='tag')
            alt = alt.split('#')[0]
        try:
            r = _single(alt)
        except (ValueError, KeyError):
            continue  # this alternative cannot be resolved: the FIRST RESOLVABLE one counts
        if r is not None:
            return r
    raise ValueError(f'no mass in {text!r}')


def mods_mass(mods, mono=True):
    """sum over [text, mult] pairs"""
    return sum(resolve(t)['mono' if mono else 'avg'] * m for t, m in mods)


def mods_comp(mods):
    """(composition of composition-bearing mods, residual shift of the others)"""
    comp, delta = {}, 0.0
    for t, m in mods:
        r = resolve(t)
        if r['comp'] is None:
            delta += r['mono'] * m
        else:
            for k, v in r['comp'].items():
                comp[k] = comp.get(k, 0) + v * m
    return comp, delta
