"""
Plain-data peptide model, independent ProForma writer, value canonicaliser, projection of library
annotations to plain data, and reference operations (slice / reverse / rotate / static-rule
expansion / search ...) written from the property statements.  The only peptacular objects touched
here are the ones handed in by the checks (projection reads public properties only).

pep = {
  'seq': str,
  'labile': [M], 'static': [R], 'isotope': [str], 'unknown': [M], 'nterm': [M], 'cterm': [M],
  'internal': [[idx, [M, ...]], ...]      (sorted by idx, every list non-empty)
  'intervals': [[start, end, ambiguous, [M, ...]], ...]  (sorted, non-overlapping; [] = no mods)
  'charge': int | None, 'adducts': str | None
}
M = [text, mult]         text exactly as written between the brackets
R = [[M, ...], [target, ...]]
"""
import copy
import re

_INT = re.compile(r'^[+-]?[0-9]+$')
_FLT = re.compile(r'^[+-]?([0-9]+\.[0-9]*|\.[0-9]+|[0-9]+)([eE][+-]?[0-9]+)?$')

KINDS = ('labile', 'static', 'isotope', 'unknown', 'nterm', 'cterm', 'internal', 'intervals', 'charge', 'adducts')


def empty_pep(seq=''):
    return {'seq': seq, 'labile': [], 'static': [], 'isotope': [], 'unknown': [], 'nterm': [], 'cterm': [],
            'internal': [], 'intervals': [], 'charge': None, 'adducts': None}


def canon(text):
    """value the notation denotes: integer literal -> int, decimal literal -> float, else the text"""
    if isinstance(text, (int, float)):
        return text
    if _INT.match(text):
        return int(text)
    if _FLT.match(text):
        return float(text)
    return text


def typed(v):
    v = canon(v) if isinstance(v, str) else v
    if isinstance(v, bool):
        return ['bool', v]
    if isinstance(v, int):
        return ['int', v]
    if isinstance(v, float):
        return ['float', v]
    return ['str', v]


# ---------------------------------------------------------------------------------------------
# writer
# ---------------------------------------------------------------------------------------------

def w_mod(m, br='[]'):
    text, mult = m
    s = f'{br[0]}{text}{br[1]}'
    if mult != 1:
        s += f'^{mult}'
    return s


def w_mods(ms, br='[]'):
    return ''.join(w_mod(m, br) for m in ms)


def w_rule(r):
    mods, targets = r
    return '<' + w_mods(mods) + '@' + ','.join(targets) + '>'


def rule_text(r):
    mods, targets = r
    return w_mods(mods) + '@' + ','.join(targets)


def write_pep(pep, style=None):
    """style: {'charge_plus': bool, 'unknown_split': bool, 'lead': [0..3 permutation flags]}"""
    style = style or {}
    out = []
    g_static = [w_rule(r) for r in pep['static']]
    g_iso = [f'<{i}>' for i in pep['isotope']]
    out.extend(g_iso + g_static if style.get('glob_rev') else g_static + g_iso)
    lab = ''.join(w_mod(m, '{}') for m in pep['labile'])
    if pep['unknown']:
        if style.get('unknown_split'):
            unk = ''.join(w_mod(m) + '?' for m in pep['unknown'])
        else:
            unk = w_mods(pep['unknown']) + '?'
    else:
        unk = ''
    out.append(unk + lab if style.get('unknown_first') else lab + unk)
    if pep['nterm']:
        out.append(w_mods(pep['nterm']) + '-')
    out.append(write_middle(pep))
    if pep['cterm']:
        out.append('-' + w_mods(pep['cterm']))
    if pep['charge'] is not None:
        c = pep['charge']
        out.append('/' + (f'+{c}' if style.get('charge_plus') and c > 0 else str(c)))
        if pep['adducts'] is not None:
            out.append(f"[{pep['adducts']}]")
    return ''.join(out)


def write_middle(pep):
    seq = pep['seq']
    internal = {i: ms for i, ms in pep['internal']}
    starts = {iv[0]: iv for iv in pep['intervals']}
    ends = {iv[1]: iv for iv in pep['intervals']}
    out = []
    for i in range(len(seq) + 1):
        if i in ends:
            out.append(')' + w_mods(ends[i][3]))
        if i in starts:
            out.append('(?' if starts[i][2] else '(')
        if i < len(seq):
            out.append(seq[i])
            if i in internal:
                out.append(w_mods(internal[i]))
    return ''.join(out)


def write_multi(chains, links, styles=None):
    """links[i] True -> '//' (cross-link), False -> '+' (chimeric)"""
    styles = styles or [None] * len(chains)
    s = write_pep(chains[0], styles[0])
    for i, c in enumerate(chains[1:]):
        s += ('//' if links[i] else '+') + write_pep(c, styles[i + 1])
    return s


# ---------------------------------------------------------------------------------------------
# projections
# ---------------------------------------------------------------------------------------------

def _pm(ms):
    return [[typed(t), m] for t, m in ms]


def expected(pep):
    """what parse(write_pep(pep)) must denote, in the normal form of project()"""
    return {
        'seq': pep['seq'],
        'labile': _pm(pep['labile']) or None,
        'static': [[typed(rule_text(r)), 1] for r in pep['static']] or None,
        'isotope': [[typed(i), 1] for i in pep['isotope']] or None,
        'unknown': _pm(pep['unknown']) or None,
        'nterm': _pm(pep['nterm']) or None,
        'cterm': _pm(pep['cterm']) or None,
        'internal': {str(i): _pm(ms) for i, ms in pep['internal']} or None,
        'intervals': [[s, e, bool(a), _pm(ms) or None] for s, e, a, ms in pep['intervals']] or None,
        'charge': pep['charge'],
        'adducts': [[typed(pep['adducts']), 1]] if pep['adducts'] is not None else None,
    }


def _typed_as_is(v):
    """the type a library value HAS (no canonicalisation: a numeral the library left as text stays text)"""
    if isinstance(v, bool):
        return ['bool', v]
    if isinstance(v, int):
        return ['int', v]
    if isinstance(v, float):
        return ['float', v]
    return ['str', v]


def _lm(mods, keep_empty=False):
    if mods is None:
        return None
    out = [[_typed_as_is(m.val), m.mult] for m in mods]
    if not out and not keep_empty:
        return None
    return out


def project(a, keep_empty=False):
    """plain-data view of a ProFormaAnnotation through public properties only.
    keep_empty=False folds empty containers into None (what the notation cannot distinguish)."""
    internal = a.internal_mods
    if internal is not None:
        internal = {str(k): _lm(v, True) for k, v in sorted(internal.items()) if (v or keep_empty)}
        if not internal and not keep_empty:
            internal = None
    intervals = a.intervals
    if intervals is not None:
        intervals = [[iv.start, iv.end, bool(iv.ambiguous), _lm(iv.mods, keep_empty)] for iv in intervals]
        if not intervals and not keep_empty:
            intervals = None
    return {
        'seq': a.sequence,
        'labile': _lm(a.labile_mods, keep_empty), 'static': _lm(a.static_mods, keep_empty),
        'isotope': _lm(a.isotope_mods, keep_empty), 'unknown': _lm(a.unknown_mods, keep_empty),
        'nterm': _lm(a.nterm_mods, keep_empty), 'cterm': _lm(a.cterm_mods, keep_empty),
        'internal': internal, 'intervals': intervals,
        'charge': a.charge, 'adducts': _lm(a.charge_adducts, keep_empty),
    }


def diff_fields(exp, obs):
    """names of the fields in which two projections differ"""
    return [k for k in exp if exp.get(k) != obs.get(k)] + [k for k in obs if k not in exp]


def sorted_proj(p):
    """projection with modification order at one position ignored (library equality ignores it)"""
    def srt(x):
        return sorted(x, key=lambda t: repr(t)) if x else x
    q = dict(p)
    for k in ('labile', 'static', 'isotope', 'unknown', 'nterm', 'cterm', 'adducts'):
        q[k] = srt(q[k])
    if q['internal']:
        q['internal'] = {k: srt(v) for k, v in q['internal'].items()}
    if q['intervals']:
        q['intervals'] = sorted([[s, e, a, srt(m)] for s, e, a, m in q['intervals']], key=repr)
    return q


# ---------------------------------------------------------------------------------------------
# reference operations on the model
# ---------------------------------------------------------------------------------------------

def m_slice(pep, i, j, keep_labile=True):
    """residues i..j-1, their residue mods re-indexed, fully contained intervals re-indexed,
    N-/C-terminal mods iff the slice contains that terminus, global annotations carried"""
    n = len(pep['seq'])
    q = copy.deepcopy(pep)
    q['seq'] = pep['seq'][i:j]
    q['internal'] = [[k - i, ms] for k, ms in pep['internal'] if i <= k < j]
    q['intervals'] = [[s - i, e - i, a, ms] for s, e, a, ms in pep['intervals'] if i <= s and e <= j]
    if i > 0:
        q['nterm'] = []
    if j < n:
        q['cterm'] = []
    # a static N-Term / C-Term rule is a terminal modification of the whole peptide: it stays only with that terminus
    st_new = []
    for mods, targets in pep['static']:
        kept = [t for t in targets if not ((t == 'N-Term' and i > 0) or (t == 'C-Term' and j < n))]
        if kept:
            st_new.append([copy.deepcopy(mods), kept])
    q['static'] = st_new
    if not keep_labile:
        q['labile'] = []
    return copy.deepcopy(q)


def m_slice_clip(pep, i, j):
    """as m_slice, but an interval that the range cuts through stays as the part of it inside the range (the library's documented
    span_to_sequence('(PEPT)IDE', (1, 6, 0)) == '(EPT)ID')"""
    q = m_slice(pep, i, j)
    q['intervals'] = sorted([max(s, i) - i, min(e, j) - i, a, copy.deepcopy(ms)] for s, e, a, ms in pep['intervals'] if s < j and e > i)
    return q


def m_reverse(pep, swap_terms=False):
    n = len(pep['seq'])
    q = copy.deepcopy(pep)
    q['seq'] = pep['seq'][::-1]
    q['internal'] = sorted([[n - 1 - k, ms] for k, ms in pep['internal']])
    q['intervals'] = sorted([[n - e, n - s, a, ms] for s, e, a, ms in pep['intervals']])
    if swap_terms:
        q['nterm'], q['cterm'] = copy.deepcopy(pep['cterm']), copy.deepcopy(pep['nterm'])
    return q


def m_rotate_residues(pep, k):
    """list of (residue, mods) after a left rotation by k"""
    n = len(pep['seq'])
    internal = {i: ms for i, ms in pep['internal']}
    items = [(pep['seq'][i], internal.get(i, [])) for i in range(n)]
    k %= n
    return items[k:] + items[:k]


def residues_with_mods(pep):
    internal = {i: ms for i, ms in pep['internal']}
    return [(pep['seq'][i], internal.get(i, [])) for i in range(len(pep['seq']))]


def expand_static(pep):
    """explicit per-residue form of the static rules (rule applied occurrence by occurrence, appended
    after existing mods; N-Term / C-Term targets go to the termini); rules removed"""
    q = copy.deepcopy(pep)
    internal = {i: list(ms) for i, ms in q['internal']}
    nterm, cterm = list(q['nterm']), list(q['cterm'])
    for mods, targets in pep['static']:
        for t in targets:
            if t == 'N-Term':
                nterm.extend(copy.deepcopy(mods))
            elif t == 'C-Term':
                cterm.extend(copy.deepcopy(mods))
            else:
                for i, aa in enumerate(pep['seq']):
                    if aa == t:
                        internal.setdefault(i, []).extend(copy.deepcopy(mods))
    q['internal'] = sorted([[i, ms] for i, ms in internal.items() if ms])
    q['nterm'], q['cterm'] = nterm, cterm
    q['static'] = []
    return q


def find_all(hay, needle):
    """every offset (overlaps included) at which needle occurs in hay"""
    if not needle:
        return []
    return [i for i in range(len(hay) - len(needle) + 1) if hay[i:i + len(needle)] == needle]
