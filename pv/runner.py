"""
Common machinery: seeds, tiers, sharded collection, classify against known findings, shrink,
replay files, evidence.  See DESIGN.md section 2.

A check module (pv/checks/cNN.py) exposes

    ID, TITLE, RULE (text of the non-trivial rule), ASSUMPTIONS (list of str)
    def parts(tier) -> list[Part]

Every Part owns a pure function  check_case(case) -> Result  that never asserts: it returns the
list of Failure objects (each with a stable root-cause signature), whether the case is
non-trivial by RULE, and a list of class labels used for the generator-distribution histogram.
Cases are plain JSON-serialisable data so that a minimal failing case can be stored and replayed
without Hypothesis.
"""
from __future__ import annotations

import hashlib
import importlib
import json
import multiprocessing as mp
import os
import signal
import sys
import threading
import time
import traceback
import warnings
from dataclasses import dataclass, field
from typing import Any, Callable, Dict, Iterable, List, Optional

HERE = os.path.dirname(os.path.dirname(os.path.abspath(__file__)))
NPROC = int(os.environ.get('PV_NPROC', '16'))


# ----------------------------------------------------------------------------------------------
# data
# ----------------------------------------------------------------------------------------------

@dataclass
class Failure:
    clause: str  # which clause of the property
    signature: str  # stable root-cause key, e.g. C16/overlap-dropped/find_subsequence_indices
    detail: Dict[str, Any] = field(default_factory=dict)  # expected / observed, free form, JSON-able


@dataclass
class Result:
    failures: List[Failure] = field(default_factory=list)
    nontrivial: bool = False
    classes: List[str] = field(default_factory=list)

    def fail(self, clause: str, signature: str, **detail):
        self.failures.append(Failure(clause, signature, _jsonable(detail)))


class HarnessError(Exception):
    pass


@dataclass
class Part:
    name: str
    check_case: Callable[[Any], Result]
    kind: str = 'hyp'  # 'hyp' | 'enum' | 'custom'
    # hyp: strategy() -> hypothesis strategy producing JSON-able cases
    strategy: Optional[Callable[[], Any]] = None
    examples: int = 1000  # total over all shards
    shards: int = NPROC
    # enum: cases() -> iterable of JSON-able cases (deterministic order); sharded by index modulo
    cases: Optional[Callable[[], Iterable[Any]]] = None
    sharded: bool = False  # cases(shard, nshards) does its own sharding
    exhaustive: bool = False  # enum part enumerates a finite sub-space completely
    distinct_by_construction: bool = False  # skip the hash set (huge enumerations)
    space: str = ''  # description of the enumerated sub-space
    # custom: run(ctx: dict) -> Collected (single process unless it forks itself)
    run: Optional[Callable[[dict], 'Collected']] = None
    shrink: bool = True
    case_limit: Optional[float] = None  # per-case watchdog in seconds (default PV_CASE_LIMIT)


@dataclass
class Collected:
    evaluations: int = 0
    nontrivial: int = 0
    nt_hashes: set = field(default_factory=set)
    classes: Dict[str, int] = field(default_factory=dict)
    samples: List[Any] = field(default_factory=list)  # (hash, case) kept smallest-hash first
    buckets: Dict[str, Dict[str, Any]] = field(default_factory=dict)
    harness_errors: List[str] = field(default_factory=list)
    notes: List[str] = field(default_factory=list)
    timeouts: int = 0  # cases of this shard that hit the per-case watchdog

    def add(self, case, res: Result, distinct_by_construction=False, keep_samples=6):
        self.evaluations += 1
        if any(TIMEOUT_MARK in f.signature for f in res.failures):
            self.timeouts += 1
        for c in res.classes:
            self.classes[c] = self.classes.get(c, 0) + 1
        if res.nontrivial:
            if distinct_by_construction:
                self.nontrivial += 1
            else:
                self.nt_hashes.add(case_hash(case))
            if len(self.samples) < keep_samples:
                self.samples.append(case)
        for f in res.failures:
            b = self.buckets.get(f.signature)
            size = len(json.dumps(_jsonable(case), sort_keys=True, default=str))
            if b is None:
                self.buckets[f.signature] = {'count': 1, 'clause': f.clause, 'case': _jsonable(case),
                                             'detail': f.detail, 'size': size}
            else:
                b['count'] += 1
                if size < b['size']:
                    b.update(case=_jsonable(case), detail=f.detail, size=size, clause=f.clause)

    def merge(self, other: 'Collected'):
        self.evaluations += other.evaluations
        self.nontrivial += other.nontrivial
        self.nt_hashes |= other.nt_hashes
        for k, v in other.classes.items():
            self.classes[k] = self.classes.get(k, 0) + v
        for s in other.samples:
            if len(self.samples) < 8:
                self.samples.append(s)
        for sig, b in other.buckets.items():
            mine = self.buckets.get(sig)
            if mine is None:
                self.buckets[sig] = dict(b)
            else:
                mine['count'] += b['count']
                if b['size'] < mine['size']:
                    cnt = mine['count']
                    mine.update(b)
                    mine['count'] = cnt
        self.harness_errors.extend(other.harness_errors)
        self.notes.extend(other.notes)


def _jsonable(x):
    if isinstance(x, dict):
        return {str(k): _jsonable(v) for k, v in x.items()}
    if isinstance(x, (list, tuple, set, frozenset)):
        return [_jsonable(v) for v in x]
    if isinstance(x, (str, int, bool)) or x is None:
        return x
    if isinstance(x, float):
        if x != x or x in (float('inf'), float('-inf')):
            return repr(x)
        return x
    return repr(x)


def case_hash(case) -> int:
    s = json.dumps(_jsonable(case), sort_keys=True, default=str)
    return int.from_bytes(hashlib.blake2b(s.encode(), digest_size=8).digest(), 'big')


def derive_seed(*parts) -> int:
    s = '|'.join(str(p) for p in parts)
    return int.from_bytes(hashlib.blake2b(s.encode(), digest_size=4).digest(), 'big')


# ----------------------------------------------------------------------------------------------
# safe evaluation of check_case
# ----------------------------------------------------------------------------------------------

def _lib_frame(tb, outermost=False) -> Optional[str]:
    """innermost (or outermost) traceback frame that lies inside the peptacular package, as 'file:function'"""
    found = None
    for fs in traceback.extract_tb(tb):
        fn = fs.filename.replace('\\', '/')
        if '/peptacular/' in fn and '/pv/' not in fn:
            found = f"{os.path.basename(fn)}:{fs.name}"
            if outermost:
                break
    return found


TIMEOUT_MARK = '/no-result-within-time-limit/'
MAX_TIMEOUTS_PER_SHARD = 2  # a shard stops after this many non-returning cases (each costs the full limit)


class _AbortShard(Exception):
    pass


class CaseTimeout(BaseException):
    """raised by the per-case watchdog (SIGALRM) inside whatever frame is executing"""


CASE_LIMIT = float(os.environ.get('PV_CASE_LIMIT', '300'))
_HEARTBEAT = None   # in a shard process: shared [start time of the current case, its limit] read by the parent


def _job_main(fn, job, conn, hb):
    global _HEARTBEAT
    _HEARTBEAT = hb
    try:
        conn.send(fn(job))
    finally:
        conn.close()


def _run_jobs(ctx, fn, jobs, nproc, prop_id, part_name):
    """one process per shard, at most nproc at a time.  The per-case alarm cannot interrupt a call that stays inside C code (a
    regular expression that backtracks without end): a shard whose current case is three limits (+30 s) old is killed by the
    parent and counted as a case without a result; what the shard had collected is lost with it"""
    results, pending, active = {}, list(enumerate(jobs)), {}
    while pending or active:
        while pending and len(active) < nproc:
            idx, job = pending.pop(0)
            rd, wr = ctx.Pipe(duplex=False)
            hb = ctx.Array('d', [time.time(), CASE_LIMIT], lock=False)
            p = ctx.Process(target=_job_main, args=(fn, job, wr, hb))
            p.start()
            wr.close()
            active[idx] = (p, rd, hb)
        for idx in list(active):
            p, rd, hb = active[idx]
            if rd.poll(0.02):
                try:
                    results[idx] = rd.recv()
                except EOFError:
                    col = Collected()
                    col.harness_errors.append(f'{prop_id}/{part_name} shard {idx}: worker ended without a result')
                    results[idx] = col
                p.join()
                del active[idx]
            elif not p.is_alive():
                col = Collected()
                col.harness_errors.append(f'{prop_id}/{part_name} shard {idx}: worker died (exit code {p.exitcode})')
                results[idx] = col
                del active[idx]
            elif time.time() - hb[0] > 3 * hb[1] + 30:
                p.kill()
                p.join()
                col = Collected()
                r = Result()
                r.fail('every call on an input of the domain returns or raises',
                       f'{prop_id}/{part_name}{TIMEOUT_MARK}call-that-cannot-be-interrupted', limit_s=hb[1], shard=idx,
                       note='the shard was killed by the runner; the case is not known to the parent')
                col.add(None, r)
                results[idx] = col
                del active[idx]
        time.sleep(0.05)
    return [results[i] for i in sorted(results)]   # in shard order: the merged result does not depend on which shard finished first


def _on_alarm(signum, frame):
    raise CaseTimeout()


def safe_check(part: Part, case, prop_id: str) -> Result:
    """Run check_case; an exception escaping through a peptacular frame is an observable of the
    library on an input of the property's domain -> Failure; one without a library frame is a
    harness bug -> HarnessError.  A per-case watchdog (PV_CASE_LIMIT seconds, default 300 - four to
    five orders of magnitude above a normal case) turns a library call that does not come back into
    a Failure instead of a check that never ends; if the limit expires outside library code it is a
    harness error."""
    armed = False
    limit = min(CASE_LIMIT, part.case_limit) if part.case_limit else CASE_LIMIT
    if _HEARTBEAT is not None:
        _HEARTBEAT[0] = time.time()   # start of this case
        _HEARTBEAT[1] = limit
    try:
        if threading.current_thread() is threading.main_thread():
            signal.signal(signal.SIGALRM, _on_alarm)
            signal.setitimer(signal.ITIMER_REAL, limit)
            armed = True
        try:
            with warnings.catch_warnings():
                warnings.simplefilter('ignore')
                return part.check_case(case)
        finally:
            if armed:
                signal.setitimer(signal.ITIMER_REAL, 0)
    except CaseTimeout as e:
        frame = _lib_frame(e.__traceback__, outermost=True)  # the entry point is stable; the interrupted inner frame is not
        if frame is None:
            raise HarnessError(f"{prop_id}/{part.name}: case exceeded {limit:.0f}s outside library code\n"
                               f"case={json.dumps(_jsonable(case))[:2000]}")
        r = Result()
        r.fail('every call on an input of the domain returns or raises', f'{prop_id}/{part.name}{TIMEOUT_MARK}{frame}',
               limit_s=limit)
        return r
    except HarnessError:
        raise
    except RecursionError as e:
        r = Result()
        r.fail('no-unexpected-exception', f'{prop_id}/{part.name}/unexpected-exception/RecursionError', error=str(e)[:200])
        return r
    except Exception as e:  # noqa
        frame = _lib_frame(e.__traceback__)
        if frame is None:
            raise HarnessError(f"{prop_id}/{part.name}: {type(e).__name__}: {e}\ncase={json.dumps(_jsonable(case))[:2000]}\n"
                               + ''.join(traceback.format_exception(type(e), e, e.__traceback__)[-6:]))
        r = Result()
        r.fail('no-unexpected-exception', f'{prop_id}/{part.name}/unexpected-exception/{type(e).__name__}/{frame}',
               error=str(e)[:300])
        return r


# ----------------------------------------------------------------------------------------------
# workers
# ----------------------------------------------------------------------------------------------

def _load(prop_id: str):
    return importlib.import_module(f'pv.checks.{prop_id.lower()}')


def _get_part(prop_id: str, tier: str, name: str) -> Part:
    mod = _load(prop_id)
    for p in mod.parts(tier):
        if p.name == name:
            return p
    raise HarnessError(f'no part {name} in {prop_id}')


def _hyp_settings(n, shrink=False):
    from hypothesis import settings, HealthCheck, Phase
    phases = [Phase.generate] + ([Phase.shrink] if shrink else [])
    return settings(max_examples=max(1, n), database=None, deadline=None, derandomize=False,
                    report_multiple_bugs=False, suppress_health_check=list(HealthCheck), phases=phases,
                    print_blob=False)


def _worker_hyp(args):
    prop_id, tier, part_name, shard, nshards, n, seed = args
    col = Collected()
    try:
        part = _get_part(prop_id, tier, part_name)
        from hypothesis import given, seed as hseed
        strat = part.strategy()

        @hseed(derive_seed(seed, prop_id, part_name, shard))
        @_hyp_settings(n)
        @given(strat)
        def run(case):
            res = safe_check(part, case, prop_id)
            col.add(case, res)
            if col.timeouts >= MAX_TIMEOUTS_PER_SHARD:
                raise _AbortShard()

        run()
    except _AbortShard:
        col.notes.append(f'{part_name} shard {shard}: stopped after {col.timeouts} cases that did not return within the time limit')
    except HarnessError as e:
        col.harness_errors.append(str(e))
    except Exception as e:  # noqa
        col.harness_errors.append(f'{prop_id}/{part_name} shard {shard}: ' + ''.join(
            traceback.format_exception(type(e), e, e.__traceback__)[-8:]))
    return col


def _worker_enum(args):
    prop_id, tier, part_name, shard, nshards, n, seed = args
    col = Collected()
    try:
        part = _get_part(prop_id, tier, part_name)
        if part.sharded:
            it = part.cases(shard, nshards)
        else:
            it = (c for i, c in enumerate(part.cases()) if i % nshards == shard)
        for case in it:
            res = safe_check(part, case, prop_id)
            col.add(case, res, distinct_by_construction=part.distinct_by_construction)
            if col.timeouts >= MAX_TIMEOUTS_PER_SHARD:
                col.notes.append(f'{part_name} shard {shard}: stopped after {col.timeouts} cases that did not return within the time limit')
                break
    except HarnessError as e:
        col.harness_errors.append(str(e))
    except Exception as e:  # noqa
        col.harness_errors.append(f'{prop_id}/{part_name} shard {shard}: ' + ''.join(
            traceback.format_exception(type(e), e, e.__traceback__)[-8:]))
    return col


def _shrink_child(prop_id, tier, part_name, signature, seed, shard, n, outfile):
    """Second, targeted run: raises iff check_case reports `signature`, so Hypothesis shrinks it.
    Every smaller failing case seen is written to outfile (the parent may kill us on timeout)."""
    part = _get_part(prop_id, tier, part_name)
    from hypothesis import given, seed as hseed
    best = {'size': None}

    @hseed(derive_seed(seed, prop_id, part_name, shard))
    @_hyp_settings(n, shrink=True)
    @given(part.strategy())
    def run(case):
        res = safe_check(part, case, prop_id)
        hit = [f for f in res.failures if f.signature == signature]
        if hit:
            js = _jsonable(case)
            size = len(json.dumps(js, sort_keys=True, default=str))
            if best['size'] is None or size < best['size']:
                best['size'] = size
                tmp = outfile + '.tmp'
                with open(tmp, 'w') as fh:
                    json.dump({'case': js, 'detail': hit[0].detail, 'clause': hit[0].clause}, fh)
                os.replace(tmp, outfile)
            raise AssertionError(signature)

    try:
        run()
    except BaseException:  # noqa
        pass


# ----------------------------------------------------------------------------------------------
# known findings
# ----------------------------------------------------------------------------------------------

def load_known(prop_id: str):
    path = os.path.join(HERE, 'known_findings.json')
    known, fixed = {}, {}
    if os.path.exists(path):
        data = json.load(open(path))
        for e in data.get('findings', []):
            if e.get('property') != prop_id:
                continue
            if e.get('status') == 'known-finding':
                known[e['signature']] = e
            elif e.get('status') == 'fixed':
                fixed[e['signature']] = e
    return known, fixed


# ----------------------------------------------------------------------------------------------
# main driver
# ----------------------------------------------------------------------------------------------

def run_check(prop_id: str, tier: str, seed: int) -> int:
    t0 = time.time()
    mod = _load(prop_id)
    parts = mod.parts(tier)
    known, _fixed = load_known(prop_id)

    total = Collected()
    per_part = {}
    part_shard_seed = {}

    # replay tier first: stored minimal cases (seconds)
    replay_dir = os.path.join(HERE, 'replays', prop_id)
    replayed = 0
    if os.path.isdir(replay_dir):
        for fn in sorted(os.listdir(replay_dir)):
            if not fn.endswith('.json') or fn.startswith('new-'):
                continue
            try:
                rec = json.load(open(os.path.join(replay_dir, fn)))
                part = next(p for p in parts if p.name == rec['part'])
                res = safe_check(part, rec['case'], prop_id)
                c = Collected()
                c.add(rec['case'], res)
                c.samples = []
                total.merge(c)
                replayed += 1
            except StopIteration:
                continue
            except HarnessError as e:
                total.harness_errors.append(f'replay {fn}: {e}')

    ctx = mp.get_context('fork')
    for part in parts:
        tp = time.time()
        col = Collected()
        if part.kind == 'custom':
            try:
                col = part.run({'tier': tier, 'seed': seed, 'prop_id': prop_id, 'nproc': NPROC})
            except HarnessError as e:
                col.harness_errors.append(str(e))
        else:
            nsh = max(1, min(part.shards, NPROC if part.kind == 'hyp' else part.shards))
            if part.kind == 'hyp':
                per = max(1, part.examples // nsh)
                jobs = [(prop_id, tier, part.name, s, nsh, per, seed) for s in range(nsh)]
                fn = _worker_hyp
            else:
                jobs = [(prop_id, tier, part.name, s, nsh, 0, seed) for s in range(nsh)]
                fn = _worker_enum
            if nsh == 1:
                results = [fn(jobs[0])]
            else:
                results = _run_jobs(ctx, fn, jobs, min(NPROC, nsh), prop_id, part.name)
            for r in results:
                col.merge(r)
        per_part[part.name] = {
            'kind': part.kind, 'evaluations': col.evaluations,
            'distinct_nontrivial': col.nontrivial + len(col.nt_hashes),
            'wall_s': round(time.time() - tp, 2),
        }
        if part.kind == 'enum':
            per_part[part.name]['exhaustive'] = bool(part.exhaustive)
            if part.space:
                per_part[part.name]['space'] = part.space
        # remember which part each bucket came from
        for sig, b in col.buckets.items():
            b.setdefault('part', part.name)
        total.merge(col)

    # classification
    violations = []
    known_hit = []
    for sig, b in sorted(total.buckets.items()):
        if sig in known:
            known_hit.append((sig, b))
        else:
            violations.append((sig, b))

    if total.harness_errors:
        for e in total.harness_errors[:5]:
            sys.stderr.write('HARNESS ERROR: ' + e + '\n')
        _write_evidence(mod, prop_id, tier, seed, total, per_part, known_hit, violations, t0, replayed,
                        note='harness error; run is not evidence')
        return 2

    for sig, b in known_hit:
        print(f"KNOWN-FINDING: property={prop_id} {known[sig].get('what', sig)} [signature={sig}; {b['count']} case(s) this run]")

    rc = 0
    if violations:
        os.makedirs(replay_dir, exist_ok=True)
        for vi, (sig, b) in enumerate(violations[:8]):
            part = next((p for p in parts if p.name == b.get('part')), None)
            case, detail, clause = b['case'], b['detail'], b['clause']
            # Hypothesis shrinking for the first three signatures only (bounded); the others keep the smallest case seen
            if part is not None and part.kind == 'hyp' and part.shrink and vi < 3:
                shr = _shrink(prop_id, tier, part, sig, seed, 30 if tier == 'quick' else 240)
                if shr is not None and len(json.dumps(shr['case'])) <= b['size']:
                    case, detail, clause = shr['case'], shr['detail'], shr['clause']
            h = hashlib.blake2b(sig.encode(), digest_size=6).hexdigest()
            path = os.path.join(replay_dir, f'new-{h}.json')
            with open(path, 'w') as fh:
                json.dump({'property': prop_id, 'part': b.get('part'), 'signature': sig, 'clause': clause,
                           'case': case, 'detail': detail, 'count_in_run': b['count'], 'tier': tier, 'seed': seed},
                          fh, indent=1, sort_keys=True)
            print(f"VIOLATION property={prop_id} replay={os.path.relpath(path, HERE)}")
            print(f"  signature={sig} clause={clause} cases={b['count']}")
            print(f"  minimal case: {json.dumps(case)[:600]}")
            print(f"  detail: {json.dumps(detail)[:600]}")
        rc = 1

    _write_evidence(mod, prop_id, tier, seed, total, per_part, known_hit, violations, t0, replayed)
    n_nt = total.nontrivial + len(total.nt_hashes)
    print(f"{prop_id} {tier} seed={seed}: {total.evaluations} cases, {n_nt} distinct non-trivial, "
          f"{len(known_hit)} known finding(s), {len(violations)} violation signature(s), {time.time() - t0:.1f}s")
    return rc


def _shrink(prop_id, tier, part, sig, seed, timeout):
    """find the shard that produced the signature again and let Hypothesis shrink it (bounded)."""
    import tempfile
    nsh = max(1, min(part.shards, NPROC))
    per = max(1, part.examples // nsh)
    ctx = mp.get_context('fork')
    d = tempfile.mkdtemp(prefix='pvshrink')
    procs = []
    for s in range(nsh):
        out = os.path.join(d, f'{s}.json')
        p = ctx.Process(target=_shrink_child, args=(prop_id, tier, part.name, sig, seed, s, per, out))
        p.start()
        procs.append((p, out))
    deadline = time.time() + timeout
    for p, _ in procs:
        p.join(max(0.1, deadline - time.time()))
    best = None
    for p, out in procs:
        if p.is_alive():
            p.kill()
            p.join()
        if os.path.exists(out):
            try:
                rec = json.load(open(out))
                size = len(json.dumps(rec['case']))
                if best is None or size < best[0]:
                    best = (size, rec)
            except Exception:  # noqa
                pass
    import shutil
    shutil.rmtree(d, ignore_errors=True)
    return best[1] if best else None


def _write_evidence(mod, prop_id, tier, seed, total: Collected, per_part, known_hit, violations, t0, replayed, note=None):
    n_nt = total.nontrivial + len(total.nt_hashes)
    samples = total.samples[:8]
    if not samples:
        samples = ['<no non-trivial case generated>']
    exhaustive = any(v.get('exhaustive') for v in per_part.values())
    cov = {
        'evaluations': int(total.evaluations),
        'distinct_nontrivial': int(n_nt),
        'rule': getattr(mod, 'RULE', ''),
        'samples': _jsonable(samples),
        'classes': dict(sorted(total.classes.items())),
        'parts': per_part,
        'replayed_files': replayed,
        'excluded_known': int(sum(b['count'] for _, b in known_hit)),
        'known_findings_hit': [{'signature': s, 'cases': b['count']} for s, b in known_hit],
        'violation_signatures': [{'signature': s, 'cases': b['count'], 'clause': b['clause']} for s, b in violations],
    }
    if exhaustive:
        cov['exhaustive'] = True
        cov['exhaustive_subspace'] = '; '.join(v['space'] for v in per_part.values() if v.get('exhaustive') and v.get('space'))
    if total.notes:
        cov['notes'] = total.notes[:20]
    if note:
        cov['note'] = note
    ev = {
        'property_id': prop_id, 'tier': tier, 'seed': int(seed), 'level': 'exploration',
        'coverage': cov,
        'assumptions': list(getattr(mod, 'ASSUMPTIONS', [])),
        'wall_s': round(time.time() - t0, 2),
        'violations': len(violations),
    }
    # evidence/<ID>.json describes runs against /repo only: a run against a scratch copy (PV_REPO_SRC, used by the seeded-change and
    # mutation audits) writes next to it, into evidence/scratch-runs/ (ignored by git)
    scratch = os.path.realpath(os.environ.get('PV_REPO_SRC', '/repo/src')) != os.path.realpath('/repo/src')
    edir = os.path.join(HERE, 'evidence', 'scratch-runs') if scratch else os.path.join(HERE, 'evidence')
    os.makedirs(edir, exist_ok=True)
    path = os.path.join(edir, f'{prop_id}.json')
    tmp = path + '.tmp'
    with open(tmp, 'w') as fh:
        json.dump(ev, fh, indent=1, sort_keys=True)
    os.replace(tmp, path)


def run_replay(prop_id: str, path: str) -> int:
    mod = _load(prop_id)
    rec = json.load(open(path))
    known, _ = load_known(prop_id)
    for tier in ('quick', 'thorough'):
        parts = mod.parts(tier)
        part = next((p for p in parts if p.name == rec['part']), None)
        if part is not None:
            break
    if part is None:
        sys.stderr.write(f'HARNESS ERROR: no part {rec["part"]}\n')
        return 2
    try:
        res = safe_check(part, rec['case'], prop_id)
    except HarnessError as e:
        sys.stderr.write(f'HARNESS ERROR: {e}\n')
        return 2
    rc = 0
    for f in res.failures:
        if f.signature in known:
            print(f"KNOWN-FINDING: property={prop_id} {known[f.signature].get('what', f.signature)} [signature={f.signature}]")
        else:
            print(f"VIOLATION property={prop_id} replay={path}")
            print(f"  signature={f.signature} clause={f.clause}")
            print(f"  detail: {json.dumps(f.detail)[:800]}")
            rc = 1
    if rc == 0:
        print(f'{prop_id} replay {path}: no violation')
    return rc


def main(argv):
    if len(argv) < 2:
        sys.stderr.write(__doc__)
        return 2
    prop_id = argv[0].upper()
    seed = int(os.environ.get('VERIF_SEED', '1') or '1')
    try:
        if argv[1] == '--replay':
            return run_replay(prop_id, argv[2])
        tier = argv[1]
        if tier not in ('quick', 'thorough'):
            sys.stderr.write('tier must be quick or thorough\n')
            return 2
        return run_check(prop_id, tier, seed)
    except HarnessError as e:
        sys.stderr.write(f'HARNESS ERROR: {e}\n')
        return 2
    except Exception:  # noqa
        sys.stderr.write('HARNESS ERROR: ' + traceback.format_exc())
        return 2


if __name__ == '__main__':
    sys.exit(main(sys.argv[1:]))
