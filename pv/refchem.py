"""
Independent chemistry reference.  Does NOT import peptacular.

Literals: NIST "Atomic Weights and Isotopic Compositions" relative atomic masses and isotopic
abundances for the elements the properties name, CODATA particle masses, residue compositions,
backbone algebra.  `table()` additionally reads data/chem.txt with its own small reader for the
elements without a literal, and `crosscheck()` compares literals with the file.
"""
import os
import re

ELECTRON = 0.00054857990946
PROTON = 1.00727646688
NEUTRON = 1.00866491597

# symbol -> list of (mass number, relative atomic mass, abundance)
ISOTOPES = {
    'H': [(1, 1.00782503223, 0.999885), (2, 2.01410177812, 0.000115), (3, 3.0160492779, 0.0)],
    'C': [(12, 12.0, 0.9893), (13, 13.00335483507, 0.0107), (14, 14.0032419884, 0.0)],
    'N': [(14, 14.00307400443, 0.99636), (15, 15.00010889888, 0.00364)],
    'O': [(16, 15.99491461957, 0.99757), (17, 16.99913175650, 0.00038), (18, 17.99915961286, 0.00205)],
    'P': [(31, 30.97376199842, 1.0)],
    'S': [(32, 31.9720711744, 0.9499), (33, 32.9714589098, 0.0075), (34, 33.967867004, 0.0425),
          (36, 35.96708071, 0.0001)],
    'Se': [(74, 73.922475934, 0.0089), (76, 75.919213704, 0.0937), (77, 76.919914154, 0.0763),
           (78, 77.91730928, 0.2377), (80, 79.9165218, 0.4961), (82, 81.9166995, 0.0873)],
    'Na': [(23, 22.9897692820, 1.0)],
    'K': [(39, 38.9637064864, 0.932581), (40, 39.963998166, 0.000117), (41, 40.9618252579, 0.067302)],
    'Li': [(6, 6.0151228874, 0.0759), (7, 7.0160034366, 0.9241)],
    'Mg': [(24, 23.985041697, 0.7899), (25, 24.985836976, 0.1000), (26, 25.982592968, 0.1101)],
    'Ca': [(40, 39.962590863, 0.96941), (42, 41.95861783, 0.00647), (43, 42.95876644, 0.00135),
           (44, 43.95548156, 0.02086), (46, 45.9536890, 0.00004), (48, 47.95252276, 0.00187)],
    'Cl': [(35, 34.968852682, 0.7576), (37, 36.965902602, 0.2424)],
    'I': [(127, 126.9044719, 1.0)],
    'Br': [(79, 78.9183376, 0.5069), (81, 80.9162897, 0.4931)],
    'Fe': [(54, 53.93960899, 0.05845), (56, 55.93493633, 0.91754), (57, 56.93539284, 0.02119),
           (58, 57.93327443, 0.00282)],
}

RESIDUES = {
    'G': {'C': 2, 'H': 3, 'N': 1, 'O': 1}, 'A': {'C': 3, 'H': 5, 'N': 1, 'O': 1},
    'S': {'C': 3, 'H': 5, 'N': 1, 'O': 2}, 'P': {'C': 5, 'H': 7, 'N': 1, 'O': 1},
    'V': {'C': 5, 'H': 9, 'N': 1, 'O': 1}, 'T': {'C': 4, 'H': 7, 'N': 1, 'O': 2},
    'C': {'C': 3, 'H': 5, 'N': 1, 'O': 1, 'S': 1}, 'I': {'C': 6, 'H': 11, 'N': 1, 'O': 1},
    'L': {'C': 6, 'H': 11, 'N': 1, 'O': 1}, 'J': {'C': 6, 'H': 11, 'N': 1, 'O': 1},
    'N': {'C': 4, 'H': 6, 'N': 2, 'O': 2}, 'D': {'C': 4, 'H': 5, 'N': 1, 'O': 3},
    'Q': {'C': 5, 'H': 8, 'N': 2, 'O': 2}, 'K': {'C': 6, 'H': 12, 'N': 2, 'O': 1},
    'E': {'C': 5, 'H': 7, 'N': 1, 'O': 3}, 'M': {'C': 5, 'H': 9, 'N': 1, 'O': 1, 'S': 1},
    'H': {'C': 6, 'H': 7, 'N': 3, 'O': 1}, 'F': {'C': 9, 'H': 9, 'N': 1, 'O': 1},
    'R': {'C': 6, 'H': 12, 'N': 4, 'O': 1}, 'Y': {'C': 9, 'H': 9, 'N': 1, 'O': 2},
    'W': {'C': 11, 'H': 10, 'N': 2, 'O': 1}, 'U': {'C': 3, 'H': 5, 'N': 1, 'O': 1, 'Se': 1},
    'O': {'C': 12, 'H': 19, 'N': 3, 'O': 2}, 'X': {},
}
MASS_LETTERS = ''.join(sorted(RESIDUES))  # 22 unambiguous-mass letters + J + X
ALL_LETTERS = ''.join(sorted(set(MASS_LETTERS) | {'B', 'Z'}))  # 26 accepted letters

WATER = {'H': 2, 'O': 1}
CO = {'C': 1, 'O': 1}
NH3 = {'N': 1, 'H': 3}
H2 = {'H': 2}

# neutral-fragment composition offsets relative to the plain sum of residues (chemistry of backbone
# cleavage; used by C05/C12): N-terminal fragments keep the N-terminal H, C-terminal keep OH (+H).
ION_NEUTRAL = {
    'b': {},  # sum(residues) + H(N-term) - H (acylium)  => ion = residues + proton
}

_DATA = None


def data_dir():
    src = os.environ.get('PV_REPO_SRC', '/repo/src')
    return os.path.join(src, 'peptacular', 'data')


def read_chem_txt(path=None):
    """own reader of chem.txt: symbol -> list of (mass number, mass, abundance); D and T are folded into H"""
    path = path or os.path.join(data_dir(), 'chem.txt')
    out = {}
    num_to_sym = {}
    block = {}
    blocks = []
    for line in open(path):
        line = line.strip()
        if not line:
            if block:
                blocks.append(block)
            block = {}
            continue
        k, _, v = line.partition('=')
        block[k.strip()] = v.strip()
    if block:
        blocks.append(block)
    for b in blocks:
        z = int(b['Atomic Number'])
        sym = b['Atomic Symbol']
        a = int(b['Mass Number'])
        m = float(re.split(r'[(#]', b['Relative Atomic Mass'])[0])
        ab = b.get('Isotopic Composition', '')
        ab = float(re.split(r'[(#]', ab)[0]) if ab else 0.0
        if z not in num_to_sym:
            num_to_sym[z] = []
        num_to_sym[z].append((sym, a, m, ab))
    for z, rows in num_to_sym.items():
        # element symbol = symbol of the most abundant isotope (H for hydrogen)
        best = max(rows, key=lambda r: r[3])
        out[best[0]] = [(a, m, ab) for (_s, a, m, ab) in rows]
    return out


def pinned_table():
    """the NIST table as pinned in /verif (tools/pin_nist.py) - not the file of the tree under test"""
    import json
    path = os.path.join(os.path.dirname(os.path.abspath(__file__)), 'pinned', 'nist.json')
    return {k: [tuple(r) for r in v] for k, v in json.load(open(path)).items()}


def table():
    """literals where present, the pinned copy of the NIST table for every other element"""
    global _DATA
    if _DATA is None:
        t = pinned_table()
        t.update(ISOTOPES)
        _DATA = t
    return _DATA


def crosscheck(tol=1e-9):
    """compare literals with the bundled file; returns list of (symbol, mass number, field, literal, file)"""
    f = read_chem_txt()
    bad = []
    for sym, rows in ISOTOPES.items():
        frows = {a: (m, ab) for a, m, ab in f.get(sym, [])}
        for a, m, ab in rows:
            if a not in frows:
                bad.append((sym, a, 'missing', m, None))
                continue
            if abs(frows[a][0] - m) > tol:
                bad.append((sym, a, 'mass', m, frows[a][0]))
            if abs(frows[a][1] - ab) > tol:
                bad.append((sym, a, 'abundance', ab, frows[a][1]))
    return bad


def mono_isotope(sym):
    """the library's (and the proteomics) convention: principal isotope = most abundant"""
    rows = table()[sym]
    return max(rows, key=lambda r: r[2])


def mono_mass(sym):
    return mono_isotope(sym)[1]


def avg_mass(sym):
    rows = table()[sym]
    s = sum(m * ab for _a, m, ab in rows)
    if s == 0:
        return mono_mass(sym)
    return s


_KEY = re.compile(r'^(\d*)([A-Z][a-z]?)$')


def atom_mass(key, mono=True):
    """mass of one composition key: element ('C'), isotope ('13C', 'D', 'T', '2H'), particle (e, p, n)"""
    if key == 'e':
        return ELECTRON
    if key == 'p':
        return PROTON
    if key == 'n':
        return NEUTRON
    if key == 'D':
        key = '2H'
    elif key == 'T':
        key = '3H'
    m = _KEY.match(key)
    if not m:
        raise KeyError(key)
    a, sym = m.group(1), m.group(2)
    rows = table()[sym]
    if a:
        for aa, mm, _ab in rows:
            if aa == int(a):
                return mm
        raise KeyError(key)
    return mono_mass(sym) if mono else avg_mass(sym)


def comp_mass(comp, mono=True):
    return sum(atom_mass(k, mono) * v for k, v in comp.items())


def add_comp(*comps, scale=None):
    out = {}
    for i, c in enumerate(comps):
        s = 1 if scale is None else scale[i]
        for k, v in c.items():
            out[k] = out.get(k, 0) + v * s
    return {k: v for k, v in out.items() if v != 0}


def residue_mass(letter, mono=True):
    return comp_mass(RESIDUES[letter], mono)


def seq_comp(seq):
    out = {}
    for aa in seq:
        for k, v in RESIDUES[aa].items():
            out[k] = out.get(k, 0) + v
    return out


# ---- formulas ---------------------------------------------------------------------------------

_TOK = re.compile(r'\[(\d*[A-Z][a-z]?)(-?\d*\.?\d*)\]|([A-Z][a-z]?|e|p|n)(-?\d*\.?\d*)')


def parse_formula(s):
    """own parser for ProForma formulas: C2H3[13C2]N-1 ; returns dict or raises ValueError"""
    out = {}
    pos = 0
    while pos < len(s):
        m = _TOK.match(s, pos)
        if not m or m.end() == pos:
            raise ValueError(f'bad formula {s!r} at {pos}')
        key = m.group(1) or m.group(3)
        cnt = m.group(2) if m.group(1) else m.group(4)
        if cnt in ('', None):
            n = 1
        else:
            n = float(cnt) if '.' in cnt else int(cnt)
        out[key] = out.get(key, 0) + n
        pos = m.end()
    return out


# ---- proteases re-expressed as (look-behind set, look-ahead set, negative look-ahead set) -------
# None means "no constraint".  A site i (0..n) is a cleavage site iff the residue before i is in the
# look-behind set (requires i>=1), the residue at i is in the look-ahead set (requires i<n) and the
# residue at i is not in the negative look-ahead set.
PROTEASES = {
    'arg-c': ('R', None, None),
    'asp-n': (None, 'D', None),
    'chymotrypsin': ('FWYL', None, 'P'),
    'chymotrypsin/P': ('FWYL', None, None),
    'promega-chymotrypsin-high-specificity': ('YFW', None, None),
    'promega-chymotrypsin-low-specificity': ('YFWLM', None, None),
    'glu-c': ('E', None, None),
    'lys-c': ('K', None, None),
    'lys-n': (None, 'K', None),
    'proteinase k': ('AEFILTVWY', None, None),
    'trypsin': ('KR', 'NOT:P', None),  # (?=[^P]) needs a following residue that is not P
    'trypsin/P': ('KR', None, None),
    'proalanase': ('PA', None, None),
    'elastase': ('AGSVLI', None, None),
    'pepsin': ('FLWY', None, None),
    'thermolysin': ('LFIAVM', None, None),
    'proalanase-low-specificity': ('PASG', None, None),
}


def sites_from_triple(seq, triple):
    behind, ahead, neg = triple
    n = len(seq)
    out = []
    for i in range(n + 1):
        if behind is not None:
            if i < 1 or seq[i - 1] not in behind:
                continue
        if ahead is not None:
            if ahead.startswith('NOT:'):
                if i >= n or seq[i] in ahead[4:]:
                    continue
            else:
                if i >= n or seq[i] not in ahead:
                    continue
        if neg is not None:
            if i < n and seq[i] in neg:
                continue
        out.append(i)
    return out
