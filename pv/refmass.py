"""
Reference mass / composition of a peptide model, from pv/refchem.py + pv/refmods.py only.
"""
import re

from pv import refchem, refmods
from pv.model import expand_static

# ion chemistry (backbone cleavage):  neutral-fragment offsets relative to sum(residues) + mods,
# then the +1 ion adds the listed charge carrier.  Offsets as compositions.
#   prefix (N-terminal) fragments keep the N-terminal H; suffix (C-terminal) fragments keep OH.
#   b: acylium  [N-term H + residues]+           -> ion = residues + H - e   = residues + proton
#   a = b - CO ; c = b + NH3 ; y: residues + H2O + proton ; x = y + CO - H2 ; z = y - NH3
ION_OFFSET = {  # composition added to (sum of residues + mods) to get the singly charged ion, excluding the proton itself
    'b': {}, 'a': {'C': -1, 'O': -1}, 'c': {'N': 1, 'H': 3},
    'y': {'H': 2, 'O': 1}, 'x': {'C': 1, 'O': 2}, 'z': {'O': 1, 'N': -1, 'H': -1},
}
# terminal deltas used for internal ions: t1 in a,b,c describes the C-terminal side of the fragment,
# t2 in x,y,z the N-terminal side; internal 'by' = residues + proton
DELTA = {'a': {'C': -1, 'O': -1}, 'b': {}, 'c': {'N': 1, 'H': 3}, 'x': {'C': 1, 'O': 1, 'H': -2}, 'y': {}, 'z': {'N': -1, 'H': -3}}


def all_mods(pep, with_labile=True, expand=True):
    """flat list of [text, mult] over every placement (static rules expanded per occurrence)"""
    q = expand_static(pep) if expand else pep
    out = []
    for k in ('unknown', 'nterm', 'cterm'):
        out.extend(q[k])
    if with_labile:
        out.extend(q['labile'])
    for _i, ms in q['internal']:
        out.extend(ms)
    for iv in q['intervals']:
        out.extend(iv[3])
    return out


_ADD = re.compile(r'^([+-]?)(\d*)([A-Za-z]{1,2})(\d*)([+-])$')


def parse_adducts(text):
    """'+2Na+,-H+,Mg2+' -> list of (count, symbol, ion charge)"""
    out = []
    for item in text.split(','):
        m = _ADD.match(item)
        if not m:
            raise ValueError(item)
        cnt = int(m.group(2)) if m.group(2) else 1
        if m.group(1) == '-':
            cnt = -cnt
        q = int(m.group(4)) if m.group(4) else 1
        if m.group(5) == '-':
            q = -q
        out.append((cnt, m.group(3), q))
    return out


def adduct_mass(text, mono=True):
    m = 0.0
    for cnt, sym, q in parse_adducts(text):
        if sym == 'e':
            m += cnt * refchem.ELECTRON
        else:
            m += cnt * (refchem.atom_mass(sym, mono) - q * refchem.ELECTRON)
    return m


def adduct_mass_library_quirk(text, mono=True):
    """value obtained when the electrons of an ion are subtracted once instead of once per ion"""
    m = 0.0
    for cnt, sym, q in parse_adducts(text):
        if sym == 'e':
            m += cnt * refchem.ELECTRON
        else:
            m += cnt * refchem.atom_mass(sym, mono) - q * refchem.ELECTRON
    return m


def adduct_comp(text):
    c = {}
    for cnt, sym, q in parse_adducts(text):
        if sym == 'e':
            c['e'] = c.get('e', 0) + cnt
        else:
            c[sym] = c.get(sym, 0) + cnt
            c['e'] = c.get('e', 0) - q * cnt
    return c


def neutral_mass(pep, mono=True, with_labile=True):
    """sum of residues + water + every modification times its multiplier"""
    m = sum(refchem.residue_mass(aa, mono) for aa in pep['seq'])
    m += refchem.comp_mass(refchem.WATER, mono)
    m += refmods.mods_mass(all_mods(pep, with_labile), mono)
    return m


def precursor_mass(pep, mono=True, charge=0, adducts=None, isotope=0, loss=0.0, with_labile=True):
    m = neutral_mass(pep, mono, with_labile)
    if adducts is not None:
        m += adduct_mass(adducts, mono)
    else:
        m += (charge or 0) * refchem.PROTON
    return m + isotope * refchem.NEUTRON + loss


def residues_mods_mass(pep, mono=True):
    """sum of residues + all non-labile modifications (no termini)"""
    m = sum(refchem.residue_mass(aa, mono) for aa in pep['seq'])
    return m + refmods.mods_mass(all_mods(pep, with_labile=False), mono)


def ion_mass(pep, ion, charge=1, mono=True, isotope=0, loss=0.0):
    """singly/multiply protonated fragment ion of the whole model `pep` (already sliced)"""
    base = residues_mods_mass(pep, mono)
    if ion in ION_OFFSET:
        off = refchem.comp_mass(ION_OFFSET[ion], mono)
    elif ion == 'i':
        off = refchem.comp_mass({'C': -1, 'O': -1}, mono)
    elif len(ion) == 2:
        off = refchem.comp_mass(refchem.add_comp(DELTA[ion[0]], DELTA[ion[1]]), mono)
    else:
        raise ValueError(ion)
    return base + off + charge * refchem.PROTON + isotope * refchem.NEUTRON + loss
