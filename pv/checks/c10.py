"""C10 - a modification means the same thing however it is spelled."""
import re

from hypothesis import strategies as st

from pv import gen, obo, refchem
from pv.runner import Part, Result

ID = 'C10'
TITLE = 'A modification means the same thing however it is spelled'
RULE = ('exhaustive part: one case per entry of the Unimod, PSI-MOD, XLMOD (prefixed spellings only) and monosaccharide tables, '
        'evaluated through all of its spellings x {mass mono, mass average, composition}; random part: generated formulas, glycan '
        'compositions, prefixed shifts, Obs values and decorations (#tags, |alternatives, ^n); non-trivial = the entry name contains '
        '":", "[" or ">" , or the spelling carries a decoration')
ASSUMPTIONS = [
    'tabulated values are read from the OBO files by pv/obo.py (own reader), reference masses from pv/refchem.py',
    'a bare accession is not a spelling: the library documents that a bare number is a mass shift',
    'names shared by two vocabularies (2 Unimod/PSI-MOD names) are compared through their prefixed spellings only',
]

PREFIXES = {
    'unimod': ['U', 'UNIMOD', 'u', 'unimod', 'Unimod', 'UniMod'],
    'psimod': ['M', 'MOD', 'PSI-MOD', 'm', 'mod', 'psi-mod', 'Mod'],
    'xlmod': ['X', 'XLMOD', 'x', 'xlmod', 'Xlmod'],
}


def _shared_names():
    u = {e['name'] for e in obo.unimod()}
    p = {e['name'] for e in obo.psimod()}
    return u & p


def outcome(fn):
    try:
        v = fn()
    except ValueError as e:
        return ('error', type(e).__name__)
    return ('ok', v)


def _same(a, b, tol=1e-5):
    if a[0] != b[0]:
        return False
    if a[0] == 'error':
        return a[1] == b[1]
    if isinstance(a[1], dict) or isinstance(b[1], dict):
        if not (isinstance(a[1], dict) and isinstance(b[1], dict)):
            return False
        x, y = obo.norm_comp(a[1]), obo.norm_comp(b[1])
        # counts are sums of decimal counts (0.1 + 0.1 + 0.1 - 0.3): a count within 1e-9 of zero is zero, whichever side has it
        return all(abs(x.get(k, 0) - y.get(k, 0)) < 1e-9 for k in set(x) | set(y))
    return abs(a[1] - b[1]) <= tol


def check_entry(case) -> Result:
    import peptacular as pt
    r = Result()
    db, idx = case['db'], case['index']
    e = {'unimod': obo.unimod, 'psimod': obo.psimod, 'xlmod': obo.xlmod, 'mono': obo.monosaccharides}[db]()[idx]
    name, ident = e['name'], e['id']
    r.nontrivial = any(c in name for c in ':[>')
    r.classes = [db] + (['colon'] if ':' in name else []) + (['bracket'] if '[' in name else []) + (['gt'] if '>' in name else [])
    if db == 'mono':
        return _check_mono(pt, r, e)
    sp = []
    if db != 'xlmod' and name not in _shared_names():
        sp.append(('bare-name', name))
    for pre in PREFIXES[db]:
        sp.append(('prefixed-name', f'{pre}:{name}'))
        sp.append(('prefixed-accession', f'{pre}:{ident}'))
    quantities = {
        'mono': lambda s: pt.mod_mass(s, monoisotopic=True),
        'avg': lambda s: pt.mod_mass(s, monoisotopic=False),
        'comp': lambda s: pt.mod_comp(s),
    }
    for q, fn in quantities.items():
        outs = [(kind, s, outcome(lambda s=s: fn(s))) for kind, s in sp]
        ref_kind, ref_s, ref = next(o for o in outs if o[0] == 'prefixed-accession')
        for kind, s, o in outs:
            if not _same(o, ref):
                tag = kind + ('-with-colon' if ':' in name and kind == 'prefixed-name' else '')
                what = 'error' if o[0] == 'error' else ('other-value' if ref[0] == 'ok' else 'value-instead-of-error')
                r.fail('every spelling of an entry gives the same mass / composition / error', f'C10/{db}/{q}/{tag}/{what}',
                       entry=name, accession=ident, spelling=s, got=_j(o), reference_spelling=ref_s, reference=_j(ref))
                break
        # ... and that value is the tabulated one
        if ref[0] == 'ok':
            if q == 'mono' and e['mono'] is not None and abs(ref[1] - e['mono']) > 1e-5:
                r.fail('the value is the tabulated one', f'C10/{db}/mono/not-tabulated', entry=name, got=ref[1], tabulated=e['mono'])
            if q == 'avg' and e['avg'] is not None and abs(ref[1] - e['avg']) > 1e-5:
                r.fail('the value is the tabulated one', f'C10/{db}/avg/not-tabulated', entry=name, got=ref[1], tabulated=e['avg'])
            if q == 'comp' and e.get('comp') is not None:
                if not _same(('ok', e['comp']), ref):
                    r.fail('the composition is the tabulated one', f'C10/{db}/comp/not-tabulated', entry=name, got=ref[1], tabulated=e['comp'])
        else:
            if q == 'mono' and e['mono'] is not None:
                r.fail('an entry with a tabulated mass resolves', f'C10/{db}/mono/tabulated-but-error', entry=name, got=_j(ref))
    # tabulated monoisotopic mass equals the mass of the tabulated composition (Unimod)
    if db == 'unimod' and e['comp'] is not None:
        m = refchem.comp_mass(e['comp'], True)
        if abs(m - e['mono']) > 1e-3:
            r.fail('tabulated monoisotopic mass equals the mass of the tabulated composition', 'C10/unimod/table-inconsistent',
                   entry=name, tabulated=e['mono'], from_composition=m)
        lib = outcome(lambda: pt.chem_mass(pt.mod_comp(f'U:{ident}')))
        if lib[0] != 'ok' or abs(lib[1] - e['mono']) > 1e-3:
            r.fail('mass of the composition the library reports equals the tabulated mass', 'C10/unimod/library-composition-mass',
                   entry=name, tabulated=e['mono'], got=_j(lib))
    # inside a peptide: one-residue peptide carrying the modification
    if gen._bal(name) and '|' not in name and '#' not in name:
        for mono in (True, False):
            base = pt.mass('K', monoisotopic=mono)
            tab = e['mono'] if mono else e['avg']
            for kind, s in sp:
                o = outcome(lambda s=s: pt.mass(f'K[{s}]', monoisotopic=mono) - base)
                ref = outcome(lambda s=s: pt.mod_mass(s, monoisotopic=mono))
                if not _same(o, ref, 1e-6) or (o[0] == 'ok' and tab is not None and abs(o[1] - tab) > 1e-5):
                    r.fail('the mass inside a peptide is the (tabulated) mass of the modification',
                           f'C10/{db}/in-peptide/{kind}' + ('' if mono else '/average'), entry=name, spelling=s, got=_j(o), expected=_j(ref),
                           tabulated=tab)
                    break
        # composition inside a peptide
        if e.get('comp') is not None:
            base_c = pt.comp('K')
            for kind, s in sp[:3]:
                o = outcome(lambda s=s: (lambda c: {k: c.get(k, 0) - base_c.get(k, 0) for k in set(c) | set(base_c) if c.get(k, 0) - base_c.get(k, 0)})(pt.comp(f'K[{s}]')))
                if not _same(o, ('ok', e['comp'])):
                    r.fail('the composition inside a peptide is the tabulated composition of the modification', f'C10/{db}/in-peptide-comp/{kind}',
                           entry=name, spelling=s, got=_j(o), tabulated=e['comp'])
                    break
    return r


def _check_mono(pt, r, e):
    names = [e['name']] + e['synonyms']
    for mono in (True, False):
        tab = e['mono'] if mono else e['avg']
        for nm in names:
            for s in (f'Glycan:{nm}', f'glycan:{nm}', f'Glycan:{nm}1', f'Glycan:{nm}2'):
                mult = 2 if s.endswith('2') and not nm.endswith('2') else 1
                o = outcome(lambda s=s: pt.mod_mass(s, monoisotopic=mono))
                if o[0] != 'ok' or abs(o[1] - tab * mult) > 1e-5:
                    r.fail('names and synonyms of a monosaccharide give the tabulated mass', 'C10/mono/mass', entry=e['name'], spelling=s,
                           mono=mono, got=_j(o), expected=tab * mult)
                    return r
    # the accession spelling (Glycan:<id>, documented) denotes the same entry
    for s in (f'Glycan:{e["id"]}', f'glycan:{e["id"]}'):
        for mono in (True, False):
            tab = e['mono'] if mono else e['avg']
            o = outcome(lambda s=s: pt.mod_mass(s, monoisotopic=mono))
            if o[0] != 'ok' or abs(o[1] - tab) > 1e-5:
                r.fail('the accession of a monosaccharide gives the tabulated mass', 'C10/mono/mass/accession', entry=e['name'], spelling=s,
                       mono=mono, got=_j(o), expected=tab)
                return r
        o = outcome(lambda s=s: pt.mod_comp(s))
        if not _same(o, ('ok', e['comp'])):
            r.fail('the accession of a monosaccharide gives the tabulated composition', 'C10/mono/comp/accession', entry=e['name'], spelling=s,
                   got=_j(o), expected=e['comp'])
            return r
    for mono in (True, False):
        base = pt.mass('N', monoisotopic=mono)
        for nm in names[:3]:
            o = outcome(lambda nm=nm: pt.mass(f'N[Glycan:{nm}]', monoisotopic=mono) - base)
            if o[0] != 'ok' or abs(o[1] - (e['mono'] if mono else e['avg'])) > 1e-5:
                r.fail('the mass inside a peptide is the tabulated mass of the monosaccharide', 'C10/mono/in-peptide' + ('' if mono else '/average'),
                       entry=e['name'], spelling=nm, got=_j(o))
                return r
    for nm in names:
        o = outcome(lambda nm=nm: pt.mod_comp(f'Glycan:{nm}'))
        if not _same(o, ('ok', e['comp'])):
            r.fail('names and synonyms of a monosaccharide give the tabulated composition', 'C10/mono/comp', entry=e['name'], spelling=nm,
                   got=_j(o), expected=e['comp'])
            return r
    m = refchem.comp_mass(e['comp'], True)
    if abs(m - e['mono']) > 1e-3:
        r.fail('tabulated monoisotopic mass equals the mass of the tabulated composition', 'C10/mono/table-inconsistent', entry=e['name'],
               tabulated=e['mono'], from_composition=m)
    return r


def _j(o):
    return [o[0], o[1] if not isinstance(o[1], dict) else dict(o[1])]


def check_shared(case) -> Result:
    """an accession number or a name that exists in two vocabularies: interleaved lookups must not influence each other"""
    import peptacular as pt
    r = Result()
    r.nontrivial = True
    r.classes = ['shared-' + case['kind'], 'order=' + case['order']]
    tabs = {'psimod': obo.psimod(), 'xlmod': obo.xlmod(), 'unimod': obo.unimod()}
    pre = {'psimod': 'MOD', 'xlmod': 'XLMOD', 'unimod': 'UNIMOD'}
    dbs = case['dbs'] if case['order'] == 'ab' else list(reversed(case['dbs']))
    seq = dbs + [dbs[0]]  # a, b, a
    for db in seq:
        field = 'id' if case['kind'] == 'accession' else 'name'
        e = next(x for x in tabs[db] if x[field] == case['key'])
        sp = f"{pre[db]}:{case['key']}"
        o = outcome(lambda: pt.mod_mass(sp))
        if e['mono'] is not None and (o[0] != 'ok' or abs(o[1] - e['mono']) > 1e-5):
            r.fail('a spelling resolves within its own vocabulary whatever was looked up before', f'C10/shared-{case["kind"]}/{db}/mass',
                   spelling=sp, got=_j(o), tabulated=e['mono'], lookups_so_far=[f"{pre[d]}:{case['key']}" for d in seq])
            break
        oc = outcome(lambda: pt.mod_comp(sp))
        if e.get('comp') is not None and not _same(oc, ('ok', e['comp'])):
            r.fail('a spelling resolves within its own vocabulary whatever was looked up before', f'C10/shared-{case["kind"]}/{db}/comp',
                   spelling=sp, got=_j(oc), tabulated=e['comp'])
            break
    return r


def shared_cases():
    ids = {}
    names = {}
    for db, fn in (('psimod', obo.psimod), ('xlmod', obo.xlmod), ('unimod', obo.unimod)):
        for e in fn():
            ids.setdefault(e['id'], []).append(db)
            names.setdefault(e['name'], []).append(db)
    k = 0
    for kind, table in (('accession', ids), ('name', names)):
        for key, dbs in sorted(table.items()):
            if len(dbs) >= 2:
                k += 1
                yield {'kind': kind, 'key': key, 'dbs': dbs[:2], 'order': 'ab' if k % 2 else 'ba'}


def entry_cases():
    for db, fn in (('unimod', obo.unimod), ('psimod', obo.psimod), ('xlmod', obo.xlmod), ('mono', obo.monosaccharides)):
        for i in range(len(fn())):
            yield {'db': db, 'index': i}


# ---- generic forms -----------------------------------------------------------------------------

def check_generic(case) -> Result:
    import peptacular as pt
    r = Result()
    kind, text, deco = case['kind'], case['text'], case['deco']
    r.nontrivial = bool(deco['tag'] or deco['alt'] or deco['mult'] > 1)
    r.classes = [kind] + (['tag'] if deco['tag'] else []) + (['alt:' + deco['alt']] if deco['alt'] else []) + \
        ([f'mult>1'] if deco['mult'] > 1 else [])
    # reference value of the undecorated form
    ref = {}
    comp = None
    if kind == 'shift':
        v = float(text.split(':', 1)[1])
        ref = {True: v, False: v}
    elif kind == 'obs':
        v = float(text.split(':', 1)[1])
        ref = {True: v, False: v}
    elif kind == 'number':
        v = float(text)
        ref = {True: v, False: v}
    elif kind == 'formula':
        comp = refchem.parse_formula(text.split(':', 1)[1])
        ref = {True: refchem.comp_mass(comp, True), False: refchem.comp_mass(comp, False)}
    elif kind == 'glycan':
        from pv.checks.c15 import tokenisations
        if len(tokenisations(text.split(':', 1)[1])) != 1:
            r.classes.append('ambiguous-glycan-skipped')
            return r
        names = {}
        for e in obo.monosaccharides():
            names[e['name']] = e
            for s in e['synonyms']:
                names[s] = e
        comp = {}
        ref = {True: 0.0, False: 0.0}
        for nm, cnt in case['glycan']:
            e = names[nm]
            ref[True] += e['mono'] * cnt
            ref[False] += e['avg'] * cnt
            for el, n in e['comp'].items():
                comp[el] = comp.get(el, 0) + n * cnt
    elif kind == 'name':
        e = next(x for x in obo.unimod() if x['name'] == text)
        ref = {True: e['mono'], False: e['avg']}
        comp = e['comp']
    spelled = text
    if deco['tag']:
        spelled = spelled + deco['tag']
    if deco['alt'] == 'info-first':
        spelled = 'INFO:unresolvable|' + spelled
    elif deco['alt'] == 'info-last':
        spelled = spelled + '|INFO:note'
    elif deco['alt'].startswith('unresolvable-first:'):
        spelled = deco['alt'].split(':', 1)[1] + '|' + spelled
    elif deco['alt'] == 'second-resolvable':
        spelled = spelled + '|Oxidation'
    ctx = dict(spelling=spelled, kind=kind)
    scale = 1e-9 * (1 + abs(ref[True]))
    for mono in (True, False):
        o = outcome(lambda: pt.mod_mass(spelled, monoisotopic=mono))
        if o[0] != 'ok' or abs(o[1] - ref[mono]) > 1e-6 + scale:
            r.fail('generic forms give the mass of what they spell; tags and alternatives do not change it',
                   f'C10/generic/{kind}/mass' + ('/decorated' if spelled != text else ''), mono=mono, got=_j(o), expected=ref[mono], **ctx)
            break
    # multiplier multiplies
    if deco['mult'] > 1:
        from peptacular.proforma.proforma_dataclasses import Mod
        o = outcome(lambda: pt.mod_mass(Mod(spelled, deco['mult'])))
        if o[0] != 'ok' or abs(o[1] - ref[True] * deco['mult']) > 1e-6 * deco['mult'] + scale * deco['mult']:
            r.fail('a multiplier multiplies the mass', f'C10/generic/{kind}/multiplier', got=_j(o), expected=ref[True] * deco['mult'], **ctx)
        if gen._bal(spelled):
            o = outcome(lambda: pt.mass(f'K[{spelled}]^{deco["mult"]}') - pt.mass('K'))
            if o[0] != 'ok' or abs(o[1] - ref[True] * deco['mult']) > 1e-6 * deco['mult'] + 1e-7:
                r.fail('a multiplier multiplies the mass inside a peptide', f'C10/generic/{kind}/multiplier-in-peptide', got=_j(o),
                       expected=ref[True] * deco['mult'], **ctx)
    # composition
    o = outcome(lambda: pt.mod_comp(spelled))
    if comp is not None:
        if not _same(o, ('ok', {k: v for k, v in comp.items() if v != 0})) and not \
                (o[0] == 'ok' and _same(('ok', {k: v for k, v in o[1].items() if v != 0}), ('ok', {k: v for k, v in comp.items() if v != 0}))):
            r.fail('the composition is the spelled composition', f'C10/generic/{kind}/comp' + ('/decorated' if spelled != text else ''),
                   got=_j(o), expected=comp, **ctx)
    # bare tag is zero
    if case['bare_tag']:
        o = outcome(lambda: pt.mod_mass(case['bare_tag']))
        if o != ('ok', 0.0) and o != ('ok', 0):
            r.fail('a bare localisation tag has no mass', 'C10/generic/bare-tag', got=_j(o), spelling=case['bare_tag'])
    return r


def generic_strategy():
    names = [e['name'] for e in obo.unimod() if gen._bal(e['name']) and e['name'] not in _shared_names()]
    mono_names = sorted({e['name'] for e in obo.monosaccharides()} | {s for e in obo.monosaccharides() for s in e['synonyms']})
    el = st.sampled_from(['C', 'H', 'N', 'O', 'S', 'P', 'Na', 'Cl', 'Fe', 'Se', 'K', 'Br'])
    iso = st.sampled_from(['13C', '15N', '18O', '2H', '17O', '34S'])
    icnt = st.one_of(st.just(''), gen.nat(2), gen.nat(2).map(lambda s: '-' + s))
    fcnt = st.tuples(st.sampled_from(['', '-']), gen.nat(2), st.text(gen.DIG, min_size=1, max_size=2)).map(lambda t: f'{t[0]}{t[1]}.{t[2]}')
    cnt = st.one_of(icnt, icnt, fcnt)
    ftok = st.one_of(st.tuples(el, cnt).map(''.join), st.tuples(el, cnt).map(''.join), st.tuples(iso, cnt).map(lambda t: f'[{t[0]}{t[1]}]'),
                     st.tuples(st.sampled_from(['D', 'T']), icnt).map(lambda t: f'[{t[0]}{t[1]}]'))
    formula = st.lists(ftok, min_size=1, max_size=5).map(lambda xs: 'Formula:' + ''.join(xs))

    @st.composite
    def strat(draw):
        kind = draw(st.sampled_from(['shift', 'obs', 'number', 'formula', 'formula', 'glycan', 'name']))
        case = {'kind': kind, 'glycan': None}
        if kind == 'shift':
            pre = draw(st.sampled_from(['U', 'M', 'X', 'R', 'G', 'UNIMOD', 'MOD', 'u', 'm', 'XLMOD', 'RESID', 'GNO', 'PSI-MOD']))
            num = draw(st.one_of(gen.nat(3), gen.dec_text().map(lambda s: s.lstrip('+-'))))
            case['text'] = f'{pre}:{draw(st.sampled_from("+-"))}{num}'
        elif kind == 'obs':
            case['text'] = draw(st.sampled_from(['Obs', 'obs', 'OBS'])) + ':' + draw(gen.numeric_text())
        elif kind == 'number':
            case['text'] = draw(gen.numeric_text())
        elif kind == 'formula':
            case['text'] = draw(formula)
        elif kind == 'glycan':
            # written so that the reading is unambiguous: every name followed by an explicit count; a name may occur twice
            # ('Hex2HexNAc1Hex3' spells five hexoses)
            items = draw(st.lists(st.tuples(st.sampled_from(['Hex', 'HexNAc', 'Fuc', 'NeuAc', 'Neu5Gc', 'dHex', 'Pent', 'HexA', 'Sulf',
                                                             'Phospho', 'Kdn', 'Me', 'Ac', 'Neu', 'HexN', 'HexS']),
                                            st.one_of(st.integers(1, 9), st.integers(1, 9),
                                                      st.sampled_from([0.5, 2.25, 12.9, 0.1, 0.2, -0.3, -4.3, 0.00001, -1, 0.3, -0.1, -0.2]))),
                                  min_size=1, max_size=4))
            case['glycan'] = [list(x) for x in items]
            from decimal import Decimal
            case['text'] = draw(st.sampled_from(['Glycan', 'glycan', 'GLYCAN'])) + ':' + \
                ''.join(f'{a}{format(Decimal(repr(b)), "f")}' for a, b in items)
        else:
            case['text'] = draw(st.sampled_from(names))
        case['deco'] = {'tag': draw(st.one_of(st.just(''), st.just(''), gen.tag_text())),
                        'alt': draw(st.sampled_from(['', '', 'info-first', 'info-last', 'second-resolvable', 'unresolvable-first:Foo',
                                                     'unresolvable-first:U:Foo', 'unresolvable-first:M:Foo', 'unresolvable-first:Obs:abc',
                                                     'unresolvable-first:Glycan:Foo', 'unresolvable-first:X:Foo'])),
                        'mult': draw(st.sampled_from([1, 1, 2, 3, 5]))}
        case['bare_tag'] = draw(st.one_of(st.just(''), gen.tag_text()))
        return case
    return strat()


def parts(tier):
    n = 4000 if tier == 'quick' else 200000
    total = len(obo.unimod()) + len(obo.psimod()) + len(obo.xlmod()) + len(obo.monosaccharides())
    return [
        Part(name='entries', kind='enum', check_case=check_entry, cases=entry_cases, exhaustive=True, shards=16,
             space=f'all {total} entries of the Unimod, PSI-MOD, XLMOD and monosaccharide tables x all spellings x {{mono, average, composition}}'),
        Part(name='shared-keys', kind='enum', check_case=check_shared, cases=shared_cases, exhaustive=True, shards=4,
             space='every accession number and every name that occurs in two of the Unimod / PSI-MOD / XLMOD vocabularies, looked up a-b-a'),
        Part(name='generic', kind='hyp', check_case=check_generic, strategy=generic_strategy, examples=n),
    ]
