"""C09 - the parser is total: any text is either accepted or rejected with a format error."""
import itertools
import time

from hypothesis import strategies as st

from pv import gen, model, refmods
from pv.runner import Part, Result, _lib_frame

ID = 'C09'
TITLE = 'The parser is total: any text is either accepted or rejected with a format error'
RULE = ('exhaustive part: every string of up to 4 (quick) / 5 (thorough) tokens over the 25-token notation alphabet; random part: '
        'token strings up to 40 tokens and single-token mutations (delete / insert / swap / duplicate) of valid strings from the C01 '
        'writer; deferred-validation part: every modification position x a corpus of unresolvable or malformed values; coverage-guided '
        'fuzzing (atheris, thorough tier) of the same oracle; non-trivial = the string contains a bracket token and is not rejected at '
        'index 0')
ASSUMPTIONS = [
    '"never hangs" is decided by a generous per-case bound (10 s for at most 40 tokens; a call still running after 30 s is interrupted by the runner watchdog and reported, and a shard stops after two such cases)',
    'a ValueError subclass (ProFormaFormatError or the ValueError of int()) is a clean rejection',
]

TOKENS = ['P', 'K', '[', ']', '(', ')', '{', '}', '<', '>', '?', '-', '+', '/', '^', '@', '#', '|', ':', ',', '.', '1', '2', 'Oxidation',
          '\\', ' ']
BRACKETS = set('[](){}<>')


def judge(r: Result, s: str, where: str):
    """the oracle shared by all engines"""
    import peptacular as pt
    t0 = time.time()
    single = False
    accepted = False
    a = None
    try:
        a = pt.parse(s)
        accepted = True
        single = isinstance(a, pt.ProFormaAnnotation)
    except ValueError:
        pass
    except RecursionError:
        r.fail('parsing never fails with an unrelated exception', f'C09/{where}/RecursionError', string=s)
    except Exception as e:  # noqa
        frame = _lib_frame(e.__traceback__) or 'outside-library'
        r.fail('parsing either returns an annotation or raises a ValueError', f'C09/{where}/{type(e).__name__}/{frame}', string=s,
               error=str(e)[:120])
    try:
        if a is None:
            raise ValueError('rejected')
        out = a.serialize()
        if not isinstance(out, str):
            r.fail('an accepted string yields something that can be serialized', f'C09/{where}/serialize-type', string=s, got=type(out).__name__)
        # what was accepted is an annotation: every residue modification sits on a residue (serialize() cannot write any other)
        for ann in ([a] if single else list(getattr(a, 'annotations', []))):
            im = ann.internal_mods or {}
            if any((not isinstance(k, int)) or k < 0 or k >= len(ann.sequence) for k in im):
                r.fail('an accepted string yields something that can be serialized', f'C09/{where}/modification-on-no-residue', string=s,
                       positions=sorted(im), length=len(ann.sequence), serialized=out)
                break
    except Exception as e:  # noqa
        if a is not None:  # an accepted string must be serializable: here even a ValueError is a failure
            r.fail('an accepted string yields something that can be serialized', f'C09/{where}/serialize-raises-{type(e).__name__}', string=s,
                   error=str(e)[:120])
    dt = time.time() - t0
    if dt > 10:
        r.fail('parsing never hangs', f'C09/{where}/slow', string=s, seconds=dt)
    try:
        v = pt.is_sequence_valid(s)
        if bool(v) != (accepted and single):
            r.fail('is_sequence_valid says whether the string parses to one peptide', f'C09/{where}/is_sequence_valid', string=s, got=v,
                   parses=accepted, single=single)
    except Exception as e:  # noqa
        r.fail('is_sequence_valid never raises', f'C09/{where}/is_sequence_valid-raises/{type(e).__name__}', string=s)
    return accepted


def _nontrivial(s, accepted):
    return bool(set(s) & BRACKETS) and (accepted or (len(s) > 0 and s[0] in 'PK[{<('))


def check_tokens(case) -> Result:
    r = Result()
    s = ''.join(TOKENS[i] for i in case)
    acc = judge(r, s, 'tokens')
    r.nontrivial = _nontrivial(s, acc)
    r.classes = ['accepted' if acc else 'rejected', f'len={len(case)}']
    return r


def token_cases(maxlen):
    def gen_(shard, nshards):
        k = 0
        for n in range(0, maxlen + 1):
            for t in itertools.product(range(len(TOKENS)), repeat=n):
                k += 1
                if k % nshards == shard:
                    yield list(t)
    return gen_


def check_string(case) -> Result:
    r = Result()
    s = case['s']
    acc = judge(r, s, 'string')
    r.nontrivial = _nontrivial(s, acc)
    r.classes = ['accepted' if acc else 'rejected', case['kind']]
    return r


# ---- deferred validation -------------------------------------------------------------------------

BAD_VALUES = ['Foo', 'U:Foo', 'M:Foo', 'X:Foo', 'Glycan:Foo', 'Formula:Xx2', 'Obs:abc', 'M:+x', 'Foo#g1', 'Foo|Bar', '', 'UNIMOD:999999',
              'MOD:99999', 'INFO:only', 'R:Foo', 'G:Foo', 'U:', 'Formula:Xy', 'Formula:C-',
              'Obs:', 'Obs:+-1',
              # words and Python-only literals that int() / float() would take for numbers
              'NAN', 'nan', 'INF', 'inf', 'Infinity', '-inf', '1_0', '1e400', ' 1', '1 ',
              'Obs:nan', 'Obs:inf', 'Obs:1_0', 'U:+inf', 'U:+1_0', 'M:+nan', 'X:+1_0',
              # unbalanced brackets inside a formula (balanced for the surrounding notation in the labile position)
              'Formula:C]', 'Formula:[[13C]]', 'Formula:]', 'Formula:C2]H',
              # a second colon: everything after the FIRST colon is the value
              'Formula::Foo', 'Formula:C:Foo', 'Obs:5:3', 'Obs:+5:x', 'Glycan::Hex', 'Glycan:Hex:Foo',
              # case variants of resolvable spellings (names, formulas and glycan names are case-sensitive)
              'acetyl', 'OXIDATION', 'phospho', 'ACETYL', 'Formula:c2h2o', 'Glycan:hexnac', 'U:acetyl', 'carbamidomethyl']
WARM_UP = ['Acetyl', 'Oxidation', 'Phospho', 'Formula:C2H2O', 'Glycan:HexNAc', 'U:Acetyl', 'Carbamidomethyl']
POSITIONS = {
    'residue': 'PEP[{v}]TIDE', 'nterm': '[{v}]-PEPTIDE', 'cterm': 'PEPTIDE-[{v}]', 'labile': '{{{v}}}PEPTIDE', 'unknown': '[{v}]?PEPTIDE',
    'interval': 'PE(PT)[{v}]IDE', 'static-residue': '<[{v}]@T>PEPTIDE', 'static-nterm': '<[{v}]@N-Term>PEPTIDE',
    'static-cterm': '<[{v}]@C-Term>PEPTIDE', 'isotope': '<{v}>PEPTIDE', 'residue-mult': 'PEP[{v}]^2TIDE',
}


def check_deferred(case) -> Result:
    import peptacular as pt
    r = Result()
    pos, v = case['position'], case['value']
    s = POSITIONS[pos].format(v=v)
    r.nontrivial = True
    r.classes = [pos]
    ctx = dict(string=s, position=pos, value=v)
    if pos == 'isotope' and (v == '' or '@' in v):
        return r
    try:
        a = pt.parse(s)
    except ValueError as e:
        # brackets inside the value may make the string itself malformed; that is a clean rejection, not a deferral
        if any(c in v for c in '[]<>{}') or (pos.startswith('static') and '@' in v):
            return r
        r.fail('a syntactically valid string with an unresolvable modification parses (validation is deferred)',
               f'C09/deferred/{pos}/rejected-at-parse', error=str(e)[:100], **ctx)
        return r
    except Exception as e:  # noqa
        r.fail('parsing either returns an annotation or raises a ValueError', f'C09/deferred/{pos}/parse-{type(e).__name__}', **ctx)
        return r
    # the correctly spelled forms are looked up first: an unresolvable spelling must stay unresolvable afterwards
    for w in WARM_UP:
        pt.mass(POSITIONS[pos].format(v=w)) if pos != 'isotope' else None
        pt.mod_mass(w, monoisotopic=False)
    base_m = pt.mass('PEPTIDE')
    base_c = pt.comp('PEPTIDE')
    for fn_name, fn, base in (('mass', lambda: pt.mass(a), base_m), ('comp', lambda: pt.comp(a.copy()), base_c),
                              ('mass-avg', lambda: pt.mass(a, monoisotopic=False), pt.mass('PEPTIDE', monoisotopic=False))):
        try:
            got = fn()
        except ValueError:
            continue
        except Exception as e:  # noqa
            r.fail('asking for the mass or composition of an unresolvable modification raises a ValueError-family error',
                   f'C09/deferred/{pos}/{fn_name}-raises-{type(e).__name__}', error=str(e)[:100], **ctx)
            continue
        if any(c in v for c in '[]<>{}'):
            continue  # a bracket inside the value changes what the surrounding notation reads as the value: only "returns or raises cleanly"
        same = (abs(got - base) < 1e-9) if isinstance(got, (int, float)) else (got == base)
        if not same and pos != 'isotope':
            # the corpus values are unresolvable by the independent reference (pv/refmods.py): a value, even a non-zero one, is wrong
            try:
                refmods.resolve(v)
                unresolvable = False
            except (ValueError, KeyError):
                unresolvable = True
            if unresolvable:
                r.fail('asking for the mass or composition of an unresolvable modification raises a ValueError-family error',
                       f'C09/deferred/{pos}/{fn_name}-returns-a-value', got=got if isinstance(got, float) else str(got), **ctx)
        if same:
            sig = f'C09/deferred/{pos}/{fn_name}-silently-zero'
            if pos == 'isotope':
                sig = 'C09/deferred/isotope/unknown-label-silently-ignored'
            r.fail('an unresolvable modification is not silently counted as zero', sig, got=got if isinstance(got, float) else str(got), **ctx)
    # the composition calculator must not turn into a mass shift what the mass calculator refuses as unresolvable
    if pos != 'isotope':
        try:
            pt.mass(a)
            mass_raises = False
        except ValueError:
            mass_raises = True
        except Exception:  # noqa (reported above)
            mass_raises = False
        if mass_raises:
            try:
                comp_, delta_ = pt.comp_mass(a.copy())
                if delta_ != 0 and {k: v for k, v in comp_.items() if v} == base_c:
                    r.fail('asking for the mass or composition of an unresolvable modification raises a ValueError-family error',
                           f'C09/deferred/{pos}/comp_mass-reads-a-mass-shift-where-mass-raises', residual=str(delta_), **ctx)
            except ValueError:
                pass
            except Exception as e:  # noqa
                r.fail('asking for the mass or composition of an unresolvable modification raises a ValueError-family error',
                       f'C09/deferred/{pos}/comp_mass-raises-{type(e).__name__}', error=str(e)[:100], **ctx)
    return r


def check_massless(case) -> Result:
    """vocabulary entries for which the bundled table lists neither a mass nor a formula: resolvable as names, but their mass and
    composition are unknown - asking for either must raise, never count the modification as zero"""
    import peptacular as pt
    r = Result()
    pos, v = case['position'], case['value']
    s = POSITIONS[pos].format(v=v)
    r.nontrivial = True
    r.classes = [pos, case['db']]
    ctx = dict(string=s, position=pos, value=v)
    try:
        a = pt.parse(s)
    except ValueError as e:
        r.fail('a syntactically valid string with an unresolvable modification parses (validation is deferred)',
               f'C09/massless-entry/{pos}/rejected-at-parse', error=str(e)[:100], **ctx)
        return r
    for fn_name, fn in (('mass', lambda: pt.mass(a)), ('comp', lambda: pt.comp(a.copy())), ('mass-avg', lambda: pt.mass(a, monoisotopic=False)),
                        ('mass-of-string', lambda: pt.mass(s))):
        try:
            got = fn()
        except ValueError:
            continue
        except Exception as e:  # noqa
            r.fail('asking for the mass or composition of an unresolvable modification raises a ValueError-family error',
                   f'C09/massless-entry/{pos}/{fn_name}-raises-{type(e).__name__}', error=str(e)[:100], **ctx)
            continue
        r.fail('an entry without a tabulated mass or formula is not silently given one', f'C09/massless-entry/{pos}/{fn_name}-returns-a-value',
               got=got if isinstance(got, float) else str(got)[:100], **ctx)
    return r


ADDUCT_VALUES = ['1', '1.5', '-2', '', '+', '-', '+2Na+,', '+Na+,,+H+', '+1+', ',', '+2', 'Foo', '+Foo+', '+H', 'H+,', '+Na+,1', '0',
                 '+e', 'Na', '+2', '2+', '++', '+-Na+']
MALFORMED_RULES = ['<Foo@P>', '<Oxidation@P>', '<@P>', '<15.99@P>', '<Foo@N-Term>', '<Foo@P,E>']
EMPTY_TARGET_RULES = ['<[Oxidation]@>', '<[Oxidation]@P,>', '<[Oxidation]@,P>', '<[+10]@>']


def check_adduct(case) -> Result:
    """whatever stands in the charge-adduct bracket: parse accepts or cleanly rejects it, and mass / composition / m/z of an accepted
    string either work or raise a ValueError-family error - never an unrelated exception"""
    import peptacular as pt
    r = Result()
    s = f"PEPTIDE/{case['charge']}[{case['value']}]"
    r.nontrivial = True
    r.classes = ['adduct-value']
    ctx = dict(string=s)
    try:
        a = pt.parse(s)
    except ValueError:
        return r
    except Exception as e:  # noqa
        r.fail('parsing either returns an annotation or raises a ValueError', f'C09/adduct/parse-{type(e).__name__}', **ctx)
        return r
    for fn_name, fn in (('mass', lambda: pt.mass(a)), ('comp', lambda: pt.comp(a.copy())), ('mz', lambda: pt.mz(s)),
                        ('mass-labelled', lambda: pt.mass('<13C>' + s))):
        try:
            fn()
        except ValueError:
            continue
        except Exception as e:  # noqa
            r.fail('asking for the mass or composition raises a ValueError-family error, not an unrelated exception',
                   f'C09/adduct/{fn_name}-raises-{type(e).__name__}', error=str(e)[:100], **ctx)
    return r


def adduct_cases():
    for v in ADDUCT_VALUES:
        for z in (1, 2, -1):
            yield {'value': v, 'charge': z}


def check_malformed_rule(case) -> Result:
    """a global rule without a bracketed modification: rejected at parse, or its mass / composition raises - never silently zero"""
    import peptacular as pt
    r = Result()
    s = case['rule'] + 'PEPTIDE'
    r.nontrivial = True
    r.classes = ['malformed-global-rule']
    ctx = dict(string=s)
    try:
        a = pt.parse(s)
    except ValueError:
        return r
    base_m, base_c = pt.mass('PEPTIDE'), pt.comp('PEPTIDE')
    for fn_name, fn, base in (('mass', lambda: pt.mass(a), base_m), ('comp', lambda: pt.comp(a.copy()), base_c),
                              ('mass-labelled', lambda: pt.mass('<13C>' + s), pt.mass('<13C>PEPTIDE'))):
        try:
            got = fn()
        except ValueError:
            continue
        except Exception as e:  # noqa
            r.fail('asking for the mass or composition raises a ValueError-family error, not an unrelated exception',
                   f'C09/malformed-rule/{fn_name}-raises-{type(e).__name__}', error=str(e)[:100], **ctx)
            continue
        same = (abs(got - base) < 1e-9) if isinstance(got, (int, float)) else (got == base)
        if same:
            r.fail('an unresolvable modification is not silently counted as zero', f'C09/malformed-rule/{fn_name}-silently-zero', **ctx)
    return r


ODD_TARGETS = ['(', ')', '?', '\\', '.', '+', '*', '|', '^', '$', '-', 'X', 'p', '1', 'PE']


def check_odd_target(case) -> Result:
    """a global rule whose target is not a residue of the peptide (punctuation, a lower-case letter, two letters ...): parse accepts
    or rejects it; mass and composition of an accepted string agree with each other and never fail with an unrelated exception"""
    import peptacular as pt
    r = Result()
    s = f"<[Oxidation]@{case['target']}>PEPTIDE"
    r.nontrivial = True
    r.classes = ['odd-rule-target']
    ctx = dict(string=s)
    try:
        pt.parse(s)
    except ValueError:
        return r
    vals = {}
    for fn_name, fn in (('mass', lambda: pt.mass(s)), ('comp', lambda: pt.chem_mass(pt.comp(s))), ('mass-labelled', lambda: pt.mass('<13C>' + s) - (pt.mass('<13C>PEPTIDE') - pt.mass('PEPTIDE'))),
                        ('condense', lambda: pt.mass(pt.condense_static_mods(s)))):
        try:
            vals[fn_name] = fn()
        except ValueError:
            continue
        except Exception as e:  # noqa
            r.fail('asking for the mass or composition raises a ValueError-family error, not an unrelated exception',
                   f'C09/odd-target/{fn_name}-raises-{type(e).__name__.replace("error", "Error")}', error=str(e)[:100], **ctx)
    if len(vals) >= 2 and max(vals.values()) - min(vals.values()) > 1e-3:
        r.fail('mass, composition and condensed form of an accepted string agree on what the rule matches', 'C09/odd-target/calculators-disagree',
               values=vals, **ctx)
    return r


def odd_target_cases():
    for t in ODD_TARGETS:
        yield {'target': t}


def check_empty_target(case) -> Result:
    """a global rule with an empty target names no residue: rejected at parse, or mass / composition raise, or - at most - the rule
    applies to the named residues only; it must not be applied to positions that do not exist"""
    import peptacular as pt
    r = Result()
    s = case['rule'] + 'PEPTIDE'
    r.nontrivial = True
    r.classes = ['empty-rule-target']
    ctx = dict(string=s)
    try:
        pt.parse(s)
    except ValueError:
        return r
    named = [t for t in case['rule'].rsplit('@', 1)[1].rstrip('>').split(',') if t]
    rule_mod = case['rule'][2:case['rule'].index(']')]
    allowed = pt.mass(f"<[{rule_mod}]@{','.join(named)}>PEPTIDE") if named else pt.mass('PEPTIDE')
    for fn_name, fn in (('mass', lambda: pt.mass(s)), ('comp', lambda: pt.chem_mass(pt.comp(s))),
                        ('condense', lambda: pt.mass(pt.condense_static_mods(s)))):
        try:
            got = fn()
        except ValueError:
            continue
        except Exception as e:  # noqa
            r.fail('asking for the mass or composition raises a ValueError-family error, not an unrelated exception',
                   f'C09/empty-target/{fn_name}-raises-{type(e).__name__}', error=str(e)[:100], **ctx)
            continue
        if abs(got - allowed) > 1e-6:
            r.fail('a rule is applied to the residues it names and to nothing else', f'C09/empty-target/{fn_name}-applies-the-rule-to-no-residue',
                   got=got, at_most=allowed, **ctx)
    return r


def empty_target_cases():
    for v in EMPTY_TARGET_RULES:
        yield {'rule': v}


def malformed_rule_cases():
    for v in MALFORMED_RULES:
        yield {'rule': v}


def massless_cases():
    from pv import obo
    for db, ents, pfx in (('psimod', obo.psimod(), ('MOD:', 'M:')), ('xlmod', obo.xlmod(), ('XLMOD:', 'X:'))):
        for i, e in enumerate(ents):
            if e.get('mono') is not None or e.get('comp_raw') is not None:
                continue
            for v in (pfx[0] + e['id'].split(':')[-1], pfx[1] + e['name']):
                if any(c in v for c in '[]{}<>'):
                    continue
                yield {'position': ('residue', 'cterm', 'static-residue', 'interval', 'labile')[i % 5], 'value': v, 'db': db}


def deferred_cases():
    for pos in POSITIONS:
        for v in BAD_VALUES:
            if v in ('INFO:only',) and pos != 'x':
                # INFO-only values legitimately carry no mass: the library must still refuse to invent one (checked like the others)
                pass
            yield {'position': pos, 'value': v}


# ---- strategies --------------------------------------------------------------------------------

def string_strategy():
    tok = st.sampled_from(TOKENS + ['A', 'C', 'M', 'N-Term', 'Formula:C2', '+15.995', 'INFO:x', '13C', '^2', '/2', '//', 'Na+', '[Oxidation]',
                                    '(?', ')', '\n', '\t', 'é', '٣', '0'])
    random_tokens = st.lists(tok, max_size=40).map(''.join)
    valid_pep = gen.pep_model(max_len=10)
    sty = gen.style()

    @st.composite
    def mutated(draw):
        s = model.write_pep(draw(valid_pep), draw(sty))
        if draw(st.integers(0, 3)) == 1:
            s = s + draw(st.sampled_from(['+', '//'])) + model.write_pep(draw(valid_pep), draw(sty))
        # tokenise roughly: brackets and separators are single tokens
        toks = []
        cur = ''
        for ch in s:
            if ch in '[](){}<>?-+/^@#|:,':
                if cur:
                    toks.append(cur)
                    cur = ''
                toks.append(ch)
            else:
                cur += ch
        if cur:
            toks.append(cur)
        if not toks:
            return {'s': s, 'kind': 'valid'}
        op = draw(st.sampled_from(['delete', 'insert', 'swap', 'duplicate', 'none', 'truncate']))
        i = draw(st.integers(0, len(toks) - 1))
        if op == 'delete':
            toks.pop(i)
        elif op == 'insert':
            toks.insert(i, draw(tok))
        elif op == 'swap' and len(toks) > 1:
            j = draw(st.integers(0, len(toks) - 1))
            toks[i], toks[j] = toks[j], toks[i]
        elif op == 'duplicate':
            toks.insert(i, toks[i])
        elif op == 'truncate':
            toks = toks[:i + 1]
        return {'s': ''.join(toks), 'kind': 'mutated-' + op}
    return st.one_of(random_tokens.map(lambda s: {'s': s, 'kind': 'random-tokens'}), mutated(), mutated())


def run_atheris(ctx):
    """coverage-guided fuzzing of the same oracle (thorough tier): 16 independent campaigns, bytes decoded to tokens"""
    import json
    import os
    import subprocess
    import sys
    import tempfile
    from pv.runner import Collected, HERE
    col = Collected()
    secs = int(os.environ.get('PV_FUZZ_SECONDS', '75'))
    d = tempfile.mkdtemp(prefix='pvfuzz')
    procs = []
    env = dict(os.environ)
    for k in range(ctx['nproc']):
        out = os.path.join(d, f'{k}.json')
        corpus = os.path.join(d, f'corpus{k}')
        os.makedirs(corpus)
        seed_corpus = k % 2 == 0
        cmd = [sys.executable, '-m', 'pv.fuzz_c09', out, '1' if seed_corpus else '0', corpus, f'-max_total_time={secs}',
               f'-seed={ctx["seed"] * 100 + k + 1}', '-max_len=64', '-verbosity=0', '-print_final_stats=0']
        procs.append((subprocess.Popen(cmd, env=env, cwd=HERE, stdout=subprocess.DEVNULL, stderr=subprocess.DEVNULL), out))
    for p, out in procs:
        try:
            p.wait(timeout=secs + 120)
        except subprocess.TimeoutExpired:
            p.kill()
        if os.path.exists(out):
            rec = json.load(open(out))
            col.evaluations += rec['executions']
            col.nontrivial += rec['nontrivial']
            col.classes['fuzz-accepted'] = col.classes.get('fuzz-accepted', 0) + rec['accepted']
            for s in rec['samples'][:1]:
                if len(col.samples) < 4:
                    col.samples.append({'fuzzed': s})
            for sig, b in rec['buckets'].items():
                cur = col.buckets.get(sig)
                if cur is None:
                    col.buckets[sig] = b
                else:
                    cur['count'] += b['count']
        else:
            col.notes.append('one atheris campaign produced no report (inconclusive for that engine)')
    import shutil
    shutil.rmtree(d, ignore_errors=True)
    col.notes.append(f'atheris: {len(procs)} campaigns x {secs}s, half from the valid-string corpus, half from an empty corpus')
    return col


def parts(tier):
    n = 6000 if tier == 'quick' else 300000
    maxlen = 4 if tier == 'quick' else 5
    ps = [
        Part(name='tokens-exhaustive', kind='enum', check_case=check_tokens, cases=token_cases(maxlen), sharded=True, exhaustive=True,
             distinct_by_construction=True, shards=16, case_limit=30, space=f'every string of 0..{maxlen} tokens over the {len(TOKENS)}-token alphabet'),
        Part(name='deferred-validation', kind='enum', check_case=check_deferred, cases=deferred_cases, exhaustive=True, shards=4, case_limit=30,
             space=f'{len(POSITIONS)} modification positions x {len(BAD_VALUES)} unresolvable or malformed values'),
        Part(name='massless-entries', kind='enum', check_case=check_massless, cases=massless_cases, exhaustive=True, shards=8, case_limit=30,
             space='every PSI-MOD / XLMOD entry without a tabulated mass or formula x {accession, prefixed name}, position rotating over 5 kinds'),
        Part(name='adduct-values', kind='enum', check_case=check_adduct, cases=adduct_cases, exhaustive=True, shards=2, case_limit=30,
             space=f'{len(ADDUCT_VALUES)} malformed or unusual charge-adduct values x charge in (1, 2, -1)'),
        Part(name='malformed-global-rules', kind='enum', check_case=check_malformed_rule, cases=malformed_rule_cases, exhaustive=True,
             shards=1, case_limit=30, space=f'{len(MALFORMED_RULES)} global rules without a bracketed modification'),
        Part(name='empty-rule-targets', kind='enum', check_case=check_empty_target, cases=empty_target_cases, exhaustive=True, shards=1,
             case_limit=30, space=f'{len(EMPTY_TARGET_RULES)} global rules with an empty target'),
        Part(name='odd-rule-targets', kind='enum', check_case=check_odd_target, cases=odd_target_cases, exhaustive=True, shards=1, case_limit=30,
             space=f'{len(ODD_TARGETS)} global-rule targets that are not residues of the peptide'),
        Part(name='strings', kind='hyp', check_case=check_string, strategy=string_strategy, examples=n, case_limit=30),
    ]
    if tier == 'thorough':
        ps.append(Part(name='atheris', kind='custom', check_case=check_string, run=run_atheris))
    return ps
