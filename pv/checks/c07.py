"""C07 - digested peptides keep their modifications, their mass and their place."""
import copy

from hypothesis import strategies as st

from pv import gen, model, refchem, refmods
from pv.checks import c06
from pv.runner import Part, Result

ID = 'C07'
TITLE = 'Digested peptides keep their modifications, their mass and their place'
RULE = ('case = modified protein model of length 1..40 (residue, terminal, labile, static, isotope-label modifications; intervals '
        'placed inside zero-missed-cleavage segments by construction) x protease rule x missed_cleavages 0..3 x semi x return type, '
        'plus the semi-/non-enzymatic sequence generators; non-trivial = at least one cut and a modification within two residues of '
        'a cut or a terminal modification')
ASSUMPTIONS = [
    'expected peptides are reference slices of the plain-data model (pv/model.m_slice); labile, unknown-position and charge carry-over is not asserted',
    'a returned span whose end falls strictly inside an interval (possible for semi-specific spans) is not compared on the interval field',
    'mass conservation: under hydrogen / oxygen isotope labels the water added per cut carries the label',
]

CMP = ('seq', 'internal', 'intervals', 'nterm', 'cterm', 'static', 'isotope')
RTS = ['str', 'annotation', 'span', 'str-span', 'annotation-span']


def _sub(p, keys):
    return {k: p[k] for k in keys}


def _inside_interval(pep, i):
    return any(s < i < e for s, e, _a, _m in pep['intervals'])


def _label_delta(labels, comp):
    d = 0.0
    for L in labels:
        el = 'H' if L in ('D', 'T', '2H') else L.lstrip('0123456789')
        d += comp.get(el, 0) * (refchem.atom_mass(L) - refchem.atom_mass(el))
    return d


def check_case(case) -> Result:
    import peptacular as pt
    from peptacular.proforma.proforma_parser import ProFormaAnnotation
    r = Result()
    pep, rule, mc, semi, rt = case['pep'], case['rule'], case['mc'], case['semi'], case['rt']
    n = len(pep['seq'])
    s = model.write_pep(pep)
    rx = c06.rule_regex(rule)
    sites = [x for x in c06.rule_sites(pep['seq'], rule) if 0 < x < n]
    near = any(abs(i - c) <= 2 for i, _ms in pep['internal'] for c in sites)
    r.nontrivial = bool(sites) and (near or bool(pep['nterm'] or pep['cterm']))
    r.classes = [f'rt={rt}', f'mc={mc}', f'semi={semi}'] + (['cuts'] if sites else ['no-cut']) + (['intervals'] if pep['intervals'] else []) + \
        (['labile'] if pep['labile'] else []) + (['static'] if pep['static'] else []) + (['label'] if pep['isotope'] else []) + \
        (['terminal-mods'] if pep['nterm'] or pep['cterm'] else [])
    ctx = dict(protein=s, rule=rx, mc=mc, semi=semi)
    kw = dict(missed_cleavages=mc, semi=semi)
    out = {t: list(pt.digest(s, rx, return_type=t, **kw)) for t in RTS}
    spans = [tuple(x) for x in out['span']]
    # a static rule whose terminal target is spelled as in the ProForma text ('N-term' / 'C-term') is the same rule
    if any(t in ('N-Term', 'C-Term') for _ms, tg in pep['static'] for t in tg):
        s_spec = s.replace('N-Term', 'N-term').replace('C-Term', 'C-term')
        out_spec = [x.replace('N-term', 'N-Term').replace('C-term', 'C-Term') for x in pt.digest(s_spec, rx, return_type='str', **kw)]
        if out_spec != out['str']:
            r.fail('each peptide carries terminal modifications only if it contains that terminus, and the global rules',
                   'C07/static-terminal-target-in-ProForma-spelling', protein_spec_spelling=s_spec, got=out_spec[:8], expected=out['str'][:8], **ctx)
    # the five return types describe the same peptides
    ok = all(len(out[t]) == len(spans) for t in RTS)
    if ok:
        for k, sp in enumerate(spans):
            st_, an = out['str'][k], out['annotation'][k]
            ss, asp = out['str-span'][k], out['annotation-span'][k]
            if not (isinstance(an, ProFormaAnnotation) and an.serialize() == st_ and ss[0] == st_ and tuple(ss[1]) == sp and
                    isinstance(asp[0], ProFormaAnnotation) and asp[0].serialize() == st_ and tuple(asp[1]) == sp):
                ok = False
                break
    if not ok:
        r.fail('string, annotation and span return types describe the same peptides', 'C07/return-types-disagree', n_span=len(spans),
               lengths={t: len(out[t]) for t in RTS}, **ctx)
        return r
    # every peptide is the reference slice of the protein
    prot = pt.parse(s)
    for k, (a, b, _v) in enumerate(spans):
        st_, an = out['str'][k], out['annotation'][k]
        exp = model.expected(model.m_slice(pep, a, b))
        obs = model.project(an)
        keys = CMP if not (_inside_interval(pep, a) or _inside_interval(pep, b)) else tuple(x for x in CMP if x != 'intervals')
        if _sub(obs, keys) != _sub(exp, keys):
            fields = [f for f in keys if obs[f] != exp[f]]
            r.fail('each peptide has exactly the residues, residue modifications, terminal modifications and global annotations of its span',
                   'C07/peptide/' + '+'.join(fields), span=[a, b], peptide=st_, expected={f: exp[f] for f in fields},
                   got={f: obs[f] for f in fields}, **ctx)
            break
        if keys is not CMP:
            continue  # the span cuts through an interval: outside the property's domain, nothing more to compare
        try:
            back = pt.parse(st_)
        except ValueError as e:
            r.fail('the peptide string parses', 'C07/peptide-does-not-parse', span=[a, b], peptide=st_, error=str(e)[:100], **ctx)
            break
        if model.project(back) != obs:
            r.fail('the peptide string re-parses to the returned annotation', 'C07/reparse/' + '+'.join(model.diff_fields(obs, model.project(back))),
                   span=[a, b], peptide=st_, **ctx)
            break
        if not (back == an):
            sig = 'C07/reparse/library-eq-false'
            if model.project(an, True)['intervals'] == [] and model.project(back, True)['intervals'] is None:
                sig = 'C07/reparse/empty-interval-list-instead-of-none'
            r.fail('the peptide string re-parses to an equal annotation', sig, span=[a, b], peptide=st_, **ctx)
            break
        # "describe the same peptides": the annotation and its string also agree on whether the peptide is modified at all
        if bool(an.has_mods()) != bool(back.has_mods()) or bool(pt.is_modified(an)) != bool(pt.is_modified(st_)):
            r.fail('string and annotation return types describe the same peptide (modified or not)',
                   'C07/reparse/annotation-says-modified-string-does-not', span=[a, b], peptide=st_, annotation_has_mods=bool(an.has_mods()),
                   reparsed_has_mods=bool(back.has_mods()), **ctx)
            break
        if keys is CMP and b > a:
            found = pt.find_subsequence_indices(prot, an)
            if a not in found:
                r.fail('the peptide is found again in the protein at its offset', 'C07/not-found-at-offset', span=[a, b], peptide=st_,
                       found=found, **ctx)
                break
        if pt.span_to_sequence(s, (a, b, 0)) != st_:
            r.fail('span_to_sequence describes the same peptide', 'C07/span_to_sequence-differs', span=[a, b], peptide=st_, **ctx)
            break
    # an equal annotation object whose modification dictionary was filled in another order gives the same peptides
    if pep['internal']:
        d = prot.dict()
        d['internal_mods'] = {k: d['internal_mods'][k] for k in sorted(d['internal_mods'], reverse=True)}
        twin = pt.create_annotation(**d)
        out_t = list(pt.digest(twin, rx, return_type='str', **kw))
        if out_t != out['str']:
            r.fail('digesting an equal annotation object gives the same peptides as digesting the string',
                   'C07/annotation-object-with-reordered-mods-differs', string_input=out['str'][:10], object_input=out_t[:10], **ctx)
    # mass conservation over the zero-missed-cleavage peptides
    zero = sorted(tuple(x) for x in pt.digest(s, rx, missed_cleavages=0, semi=False, return_type='str-span'))
    zero = sorted(zero, key=lambda t: t[1])
    tiles = bool(zero) and zero[0][1][0] == 0 and zero[-1][1][1] == n and all(x[1][1] == y[1][0] for x, y in zip(zero, zero[1:]))
    if zero and tiles and not pep['unknown']:
        total = sum(pt.mass(p, charge=0) for p, _sp in zero)
        k = len(zero)
        water = refchem.comp_mass(refchem.WATER, True) + _label_delta(pep['isotope'], refchem.WATER)
        expm = pt.mass(s, charge=0) + (k - 1) * water
        d = total - expm
        n_tab = sum(mm for t, mm in pep['labile'] + [m for ms, _tg in pep['static'] for m in ms]
                    if refmods.resolve(t)['kind'] in ('unimod', 'psimod', 'glycan'))
        tol = 1e-6 * (k + 1) + 1e-4 * (k * (n_tab + 1) if pep['isotope'] else 0)
        if abs(d) > tol:
            lab = refmods.mods_mass(pep['labile'], True)
            Q = (k - 1) * lab
            comps = ['labile'] if lab else []
            if comps and abs(d - Q) <= tol + 1e-5 * k + 1e-4 * k:
                sig = 'C07/mass-sum/labile-or-static-terminal-rule-copied-to-every-peptide'
            else:
                sig = 'C07/mass-sum/not-conserved'
            r.fail('the masses of the zero-missed-cleavage peptides sum to the protein mass plus one water per cut', sig,
                   peptides=[p for p, _ in zero][:12], total=total, expected=expm, diff=d, copied=comps, **ctx)
    return r


def check_generators(case) -> Result:
    """get_left / right / semi / non_enzymatic sequence generators"""
    import peptacular as pt
    r = Result()
    pep = case['pep']
    n = len(pep['seq'])
    s = model.write_pep(pep)
    r.nontrivial = n >= 3 and bool(pep['internal'] or pep['nterm'] or pep['cterm'])
    r.classes = [case['which']]
    mn, mx = case['min_len'], case['max_len']
    lo = 1 if mn is None else mn
    if case['which'] == 'left':
        fn = pt.get_left_semi_enzymatic_sequences
        exp = [(0, j) for j in range(n - 1, 0, -1) if lo <= j <= (n if mx is None else mx)]
    elif case['which'] == 'right':
        fn = pt.get_right_semi_enzymatic_sequences
        exp = [(i, n) for i in range(1, n) if lo <= n - i <= (n if mx is None else mx)]
    elif case['which'] == 'semi':
        fn = pt.get_semi_enzymatic_sequences
        exp = [(0, j) for j in range(n - 1, 0, -1) if lo <= j <= (n if mx is None else mx)] + \
              [(i, n) for i in range(1, n) if lo <= n - i <= (n if mx is None else mx)]
    else:
        fn = pt.get_non_enzymatic_sequences
        exp = [(i, j) for i in range(n) for j in range(i + 1, n + 1) if (i, j) != (0, n) and lo <= j - i <= (n - 1 if mx is None else mx)]
    ctx = dict(sequence=s, which=case['which'], min_len=mn, max_len=mx)
    got = list(fn(s, min_len=mn, max_len=mx, return_type='str-span'))
    gs = [(tuple(sp)[0], tuple(sp)[1]) for _p, sp in got]
    if sorted(gs) != sorted(exp):
        r.fail('the generator returns exactly the sub-spans it documents', f'C07/generator/{case["which"]}/spans', expected=exp[:20], got=gs[:20], **ctx)
        return r
    for p, sp in got:
        a, b = tuple(sp)[0], tuple(sp)[1]
        if _inside_interval(pep, a) or _inside_interval(pep, b):
            continue
        exp_p = model.expected(model.m_slice(pep, a, b))
        obs = model.project(pt.parse(p))
        if _sub(obs, CMP) != _sub(exp_p, CMP):
            fields = [f for f in CMP if obs[f] != exp_p[f]]
            r.fail('each generated sequence carries the modifications of its span', f'C07/generator/{case["which"]}/' + '+'.join(fields),
                   span=[a, b], peptide=p, **ctx)
            break
    plain = list(fn(s, min_len=mn, max_len=mx))
    if plain != [p for p, _sp in got]:
        r.fail('str and str-span return types agree', f'C07/generator/{case["which"]}/return-types', **ctx)
    return r


def strategy():
    one = gen.mass_mod(('num', 'formula', 'unimod'), max_mult=2)
    st_text = gen.mass_mod_text(('num', 'formula', 'unimod'), gt_ok=False)
    pm = gen.pep_model(alphabet='ACDEFGKLMPRSTWY', min_len=1, max_len=40, kinds=('internal', 'nterm', 'cterm', 'labile', 'static', 'isotope'),
                       mod_strategy=one, mod_list=st.lists(one, min_size=1, max_size=2), allow_empty=False, static_mod_text=st_text,
                       isotopes=['13C', '15N', '18O', 'D'])
    rules = [['name', k] for k in ('trypsin', 'trypsin/P', 'lys-c', 'lys-n', 'asp-n', 'glu-c', 'arg-c', 'chymotrypsin', 'proalanase')] + \
        [['cg', 'KR'], ['lit', 'KP'], ['la', 'D'], ['lbneg', 'KR', 'P'], ['name', 'non-specific'], ['name', 'no-cleave']]

    @st.composite
    def strat(draw):
        pep = draw(pm)
        rule = draw(st.sampled_from(rules))
        seq = pep['seq']
        n = len(seq)
        # more cleavable residues
        if draw(st.booleans()) and n >= 4:
            lst = list(seq)
            for _ in range(draw(st.integers(1, 4))):
                lst[draw(st.integers(0, n - 1))] = draw(st.sampled_from('KRDE'))
            pep['seq'] = seq = ''.join(lst)
        if rule == ['name', 'non-specific'] and n > 12:
            pep['seq'] = seq = seq[:12]
            n = 12
            pep['internal'] = [[i, ms] for i, ms in pep['internal'] if i < n]
        # intervals inside zero-missed segments, by construction
        cuts = sorted(set([0, n] + [x for x in c06.rule_sites(seq, rule) if 0 < x < n]))
        if draw(st.integers(0, 2)) == 1 and rule != ['name', 'non-specific']:
            for a, b in zip(cuts, cuts[1:]):
                if b - a >= 1 and draw(st.integers(0, 2)) == 1:
                    i = draw(st.integers(a, b - 1))
                    j = draw(st.integers(i + 1, b))
                    pep['intervals'].append([i, j, draw(st.booleans()), draw(st.lists(one, max_size=1))])
        return {'pep': pep, 'rule': rule, 'mc': draw(st.integers(0, 3)), 'semi': draw(st.booleans()) if n <= 25 else False,
                'rt': draw(st.sampled_from(RTS))}
    return strat()


def generators_strategy():
    one = gen.mass_mod(('num', 'unimod'), max_mult=2)
    pm = gen.pep_model(alphabet='ACDEGKPST', min_len=1, max_len=12, kinds=('internal', 'nterm', 'cterm', 'static', 'isotope', 'intervals'),
                       mod_strategy=one, allow_empty=False, static_mod_text=gen.mass_mod_text(('num', 'unimod'), gt_ok=False), isotopes=['13C'])
    ln = st.sampled_from([None, None, 1, 2, 3, 5, 8, 12])
    return st.fixed_dictionaries({'pep': pm, 'which': st.sampled_from(['left', 'right', 'semi', 'non']), 'min_len': ln, 'max_len': ln})


def parts(tier):
    n = 2500 if tier == 'quick' else 80000
    return [
        Part(name='digest-peptides', kind='hyp', check_case=check_case, strategy=strategy, examples=n),
        Part(name='generators', kind='hyp', check_case=check_generators, strategy=generators_strategy, examples=n // 2),
    ]
