"""C18 - condensing modifications to mass shifts preserves the peptide."""
from hypothesis import strategies as st

from pv import gen, model, refchem, refmass, refmods
from pv.runner import Part, Result

ID = 'C18'
TITLE = 'Condensing modifications to mass shifts preserves the peptide'
RULE = ('case = generated annotation with mass-resolvable modifications of every kind (residue, terminal, labile, static incl. '
        'N-Term/C-Term, isotope labels, unknown-position, interval, charge, adducts) x include_plus x precision 3..8; non-trivial = at '
        'least two kinds of which one is not a plain residue modification')
ASSUMPTIONS = [
    'reference shifts per site come from pv/refmods.py / pv/refchem.py; the per-site clause is asserted only for inputs whose modifications all have a definite site',
    'mass tolerance: half a unit of the precision per shift written (and per residue whose shift rounds to zero at that precision, which need not be written); input and output are both weighed by the library, so tabulated-vs-composition differences of a named modification get no allowance',
    'unknown-position and interval modifications may stay in the result as numeric shifts at the same place (they have no residue of their own); static rules and isotope labels must be gone',
    'a static N-Term / C-Term rule modifies the terminus, so its shift is expected on the terminus (as condense_static_mods writes it), not on the terminal residue',
]

KINDS = ('labile', 'static', 'isotope', 'unknown', 'nterm', 'cterm', 'internal', 'intervals', 'charge', 'adducts')


def _label_delta(labels, comp):
    d = 0.0
    for L in labels:
        el = 'H' if L in ('D', 'T', '2H') else L.lstrip('0123456789')
        d += comp.get(el, 0) * (refchem.atom_mass(L) - refchem.atom_mass(el))
    return d


def _shift_in_peptide(ms, labelled):
    """what the modifications weigh inside the peptide: their tabulated masses, or - under a global isotope label, where the mass
    calculator goes through compositions - the mass of their compositions (pure mass shifts as they are)"""
    if not labelled:
        return refmods.mods_mass(ms, True)
    comp, delta = refmods.mods_comp(ms)
    return refchem.comp_mass(comp, True) + delta


def check_case(case) -> Result:
    import peptacular as pt
    r = Result()
    pep, plus, prec = case['pep'], case['plus'], case['precision']
    s = model.write_pep(pep)
    n = len(pep['seq'])
    kinds = [k for k in ('labile', 'static', 'isotope', 'unknown', 'nterm', 'cterm', 'internal') if pep[k]] + \
        (['interval-mods'] if any(iv[3] for iv in pep['intervals']) else []) + (['charge'] if pep['charge'] is not None else [])
    r.nontrivial = len(kinds) >= 2 and any(k != 'internal' for k in kinds)
    r.classes = kinds + [f'precision={prec}', f'plus={plus}']
    ctx = dict(sequence=s, include_plus=plus, precision=prec)
    out = pt.condense_to_mass_mods(s, include_plus=plus, precision=prec)
    if not isinstance(out, str):
        r.fail('returns a string', 'C18/type', got=type(out).__name__, **ctx)
        return r
    if not kinds:
        if out != s:
            r.fail('an unmodified peptide is returned unchanged', 'C18/unmodified-changed', result=out, **ctx)
        return r
    try:
        a = pt.parse(out)
    except ValueError as e:
        r.fail('the result parses', 'C18/result-does-not-parse', result=out, error=str(e)[:100], **ctx)
        return r
    if isinstance(a, pt.MultiProFormaAnnotation):
        r.fail('the result is one peptide', 'C18/result-multi', result=out, **ctx)
        return r
    obs = model.project(a)
    if obs['seq'] != pep['seq']:
        r.fail('same residues', 'C18/residues-changed', result=out, **ctx)
        return r
    for f in ('static', 'isotope'):
        if obs[f] is not None:
            r.fail('global rules and isotope labels are expanded per residue', f'C18/result-keeps-{f}', result=out, **ctx)
    shifts = 0
    # unknown-position and interval modifications have no residue of their own: they may stay where they were, as numbers
    for iv in (obs['intervals'] or []):
        if [iv[0], iv[1], iv[2]] not in [[a, b, bool(c)] for a, b, c, _m in pep['intervals']]:
            r.fail('an ambiguity interval of the result is one of the input', 'C18/interval-moved', result=out, **ctx)
            continue
        ms_in = next(m for a, b, c, m in pep['intervals'] if [a, b, bool(c)] == [iv[0], iv[1], iv[2]])
        for v, _m in (iv[3] or []):
            shifts += 1
            if v[0] not in ('int', 'float'):
                r.fail('the result contains only numeric modifications', 'C18/non-numeric/interval', result=out, **ctx)
        got = sum(v[1] * m for v, m in (iv[3] or []) if v[0] in ('int', 'float'))
        if abs(got - _shift_in_peptide(ms_in, bool(pep['isotope']))) > 0.5 * 10 ** (-prec) + 1e-8:
            r.fail('an interval keeps the mass of its modifications', 'C18/site/interval', expected=_shift_in_peptide(ms_in, bool(pep['isotope'])), got=got,
                   result=out, **ctx)
    if obs['unknown']:
        got = sum(v[1] * m for v, m in obs['unknown'] if v[0] in ('int', 'float'))
        if abs(got - _shift_in_peptide(pep['unknown'], bool(pep['isotope']))) > 0.5 * 10 ** (-prec) + 1e-8:
            r.fail('unknown-position modifications keep their mass', 'C18/site/unknown', expected=_shift_in_peptide(pep['unknown'], bool(pep['isotope'])),
                   got=got, result=out, **ctx)
    # what has no residue of its own stays where it was: unknown-position modifications stay unknown-position, every interval stays
    # (with or without modifications), charge and adducts are carried over unchanged
    if bool(pep['unknown']) != bool(obs['unknown']):
        r.fail('shifts sit where the modifications were', 'C18/site/unknown-position-modifications-moved-or-lost', result=out, **ctx)
    got_iv = sorted([iv[0], iv[1], bool(iv[2])] for iv in (obs['intervals'] or []))
    exp_iv = sorted([a_, b_, bool(c_)] for a_, b_, c_, _m in pep['intervals'])
    if got_iv != exp_iv:
        r.fail('ambiguity intervals are kept', 'C18/intervals-changed', expected=exp_iv, got=got_iv, result=out, **ctx)
    exp_add = model.expected(pep)['adducts']
    if obs['charge'] != pep['charge'] or obs['adducts'] != exp_add:
        r.fail('charge and adducts are carried over unchanged', 'C18/charge-or-adducts-changed', expected=[pep['charge'], exp_add],
               got=[obs['charge'], obs['adducts']], result=out, **ctx)
    for f in ('labile', 'nterm', 'cterm', 'unknown'):
        for v, _m in (obs[f] or []):
            shifts += 1
            if v[0] not in ('int', 'float'):
                r.fail('the result contains only numeric modifications', f'C18/non-numeric/{f}', result=out, **ctx)
    for _k, ms in (obs['internal'] or {}).items():
        for v, _m in ms:
            shifts += 1
            if v[0] not in ('int', 'float'):
                r.fail('the result contains only numeric modifications', 'C18/non-numeric/internal', result=out, **ctx)
    # mass is preserved
    m_in = pt.mass(s)
    m_out = pt.mass(out)
    # every written shift is rounded to `precision` (error <= half a unit each); a residue whose net shift is below the documented
    # 1e-6 significance threshold is not written; under an isotope label named modifications are weighed through their composition
    # (C03 tolerance 1e-4 each)
    E_all = model.expand_static(pep)
    # a residue whose shift rounds to zero at this precision need not be written: it costs at most half a unit, like a written one
    small = sum(1 for _i, ms in E_all['internal'] if 0 < abs(refmods.mods_mass(ms, True)) <= 0.5 * 10 ** (-prec))
    named = sum(mm for t, mm in refmass.all_mods(pep) if refmods.resolve(t)['kind'] in ('unimod', 'psimod', 'glycan'))
    # (both masses come from the library's mass(): a named modification under a label needs no allowance of its own - the condensed
    # shift is what mass() weighs, composition-based under a label; 3e-8 per charge for the proton constant vs hydrogen minus electron)
    tol = 0.5 * 10 ** (-prec) * (shifts + small) + 1e-9 + (3e-8 * (1 + abs(pep['charge'] or 0)) if pep['isotope'] else 0)
    diff = m_out - m_in
    if abs(diff) > tol:
        # known repetition of annotations that have no single residue: they are added once per residue of the split
        C = 0.0
        if pep['charge'] is not None:
            if pep['isotope']:
                # a labelled peptide is weighed through its composition: the charge carriers are atoms and get labelled too
                cc = refmass.adduct_comp(pep['adducts']) if pep['adducts'] is not None else {'H': pep['charge'], 'e': -pep['charge']}
                C = refchem.comp_mass(cc, True) + _label_delta(pep['isotope'], cc)
            else:
                C = refmass.adduct_mass_library_quirk(pep['adducts'], True) if pep['adducts'] is not None else pep['charge'] * refchem.PROTON
        U = refmods.mods_mass(pep['unknown'], True)
        T = 0.0  # static N-Term / C-Term rules stay with their terminus since fix 99d59c3
        I = sum((e - st_ - 1) * refmods.mods_mass(ms, True) for st_, e, _a, ms in pep['intervals'])
        W = _label_delta(pep['isotope'], refchem.WATER)
        # the charge of the input is dropped from the output string: the input mass contains it once, the output n times
        Q = (n * C - C) + (n - 1) * (U + T + W) + I
        comps = [nm for nm, v in (('charge', C), ('unknown', U), ('static-terminal-rule', T), ('interval', I), ('label-on-water', W)) if v]
        qt = tol + 1e-5 * (n + 1) + 1e-4 * n
        # mass() weighs a labelled peptide through its composition, so its charge carriers (H+ by default) are labelled too; the
        # condensed string has no label, so its charge carriers are plain
        LC = EQ = 0.0
        if pep['charge'] is not None and pep['isotope']:
            cc = refmass.adduct_comp(pep['adducts']) if pep['adducts'] is not None else {'H': pep['charge'], 'e': -pep['charge']}
            LC = _label_delta(pep['isotope'], cc)
            if pep['adducts'] is not None:
                # ... and through the composition an adduct ion written with a count loses all its electrons, while the unlabelled
                # result goes through the adduct-mass routine of the C02 / C03 finding (electrons counted once per term)
                EQ = refchem.comp_mass(cc, True) - refmass.adduct_mass_library_quirk(pep['adducts'], True)
        if abs(LC) > 1e-9 and abs(diff + LC) <= tol + 1e-6:
            sig = 'C18/mass/labelled-charge-carriers-not-expressible-without-the-label'
        elif abs(EQ) > 1e-9 and abs(diff + LC + EQ) <= tol + 1e-6:
            sig = 'C18/mass/adduct-electrons-not-multiplied-by-ion-count'  # (fixed by 01a12e3; reported again if it returns)
        elif comps and abs(diff - Q) <= qt:
            sig = 'C18/mass/annotation-without-a-residue-repeated-per-residue'
        else:
            sig = 'C18/mass/not-preserved'
        r.fail('the mass equals the original mass to within the rounding precision times the number of shifts', sig, result=out,
               before=m_in, after=m_out, diff=diff, repeated=comps, repetition_amount=Q if comps else None, **ctx)
    # per-site shifts for inputs whose modifications all have a definite site
    if True:  # residue, terminal and labile sites are definite whatever else the peptide carries
        E = model.expand_static(pep)
        internal = {i: ms for i, ms in E['internal']}
        oi = obs['internal'] or {}
        for i, aa in enumerate(pep['seq']):
            exp = refmods.mods_mass(internal.get(i, []), True) + _label_delta(pep['isotope'], refchem.RESIDUES[aa])
            got = sum(v[1] * m for v, m in oi.get(str(i), []))
            site_named = sum(mm for t, mm in internal.get(i, []) if refmods.resolve(t)['kind'] in ('unimod', 'psimod', 'glycan'))
            if abs(got - exp) > 0.5 * 10 ** (-prec) + 1e-8 + (1e-4 * site_named if pep['isotope'] else 0):  # (reference: tabulated masses)
                r.fail('the shifts sit on the residues that were modified (rules and labels expanded per residue)', 'C18/site/residue',
                       index=i, expected=exp, got=got, result=out, **ctx)
                break
        for f in ('nterm', 'cterm', 'labile'):
            exp = _shift_in_peptide(E[f], bool(pep['isotope']))  # (E: static N-Term / C-Term rules written out on their terminus)
            # a label also applies to the terminal H (N-terminus) and OH (C-terminus) of the peptide
            if f == 'nterm':
                exp += _label_delta(pep['isotope'], {'H': 1})
            elif f == 'cterm':
                exp += _label_delta(pep['isotope'], {'O': 1, 'H': 1})
            got = sum(v[1] * m for v, m in (obs[f] or []))
            if abs(got - exp) > 0.5 * 10 ** (-prec) + 1e-8:
                r.fail('terminal and labile modifications become one numeric shift at the same place', f'C18/site/{f}', expected=exp, got=got,
                       result=out, **ctx)
    # annotation input gives the same string
    out_a = pt.condense_to_mass_mods(pt.parse(s), include_plus=plus, precision=prec)
    if out_a != out:
        r.fail('annotation input gives the same result as string input', 'C18/annotation-input-differs', string=out, annotation=out_a, **ctx)
    return r


def strategy():
    small = st.tuples(st.sampled_from(['0.005', '-0.003', '+0.0005', '0.00002', '0.0011', '0.0000009', '-0.0000004', '0.00000012']), st.just(1)).map(list)
    one = st.one_of(gen.mass_mod(('num', 'formula', 'unimod', 'glycan'), max_mult=3, decorate=True), gen.mass_mod(('num', 'formula', 'unimod', 'glycan'), max_mult=3, decorate=True), gen.mass_mod(('num', 'formula', 'unimod', 'glycan', 'psi'), max_mult=3, decorate=True), small)
    st_text = gen.mass_mod_text(('num', 'formula', 'unimod'), gt_ok=False)
    pm = gen.pep_model(alphabet=gen.AA_MASS.replace('X', ''), min_len=1, max_len=15, kinds=KINDS, mod_strategy=one,
                       mod_list=st.lists(one, min_size=1, max_size=2), allow_empty=False, static_mod_text=st_text,
                       isotopes=['13C', '15N', '18O', 'D'], static_max_mult=2)
    plain = st.text(gen.AA_MASS.replace('X', ''), min_size=1, max_size=10).map(model.empty_pep)

    @st.composite
    def strat(draw):
        pep = draw(st.one_of(pm, pm, pm, pm, plain))
        if pep['charge'] is not None:
            pep['charge'] = max(-3, min(4, pep['charge']))
        # keep the heavy "global" kinds in a minority so that the definite-site clause is exercised often
        if draw(st.integers(0, 2)) != 1:
            pep['unknown'] = []
            pep['charge'] = None
            pep['adducts'] = None
            pep['intervals'] = [[a, b, c, []] for a, b, c, _m in pep['intervals']]
            pep['static'] = [[ms, [t for t in tg if t not in ('N-Term', 'C-Term')] or ['A']] for ms, tg in pep['static']]
            pep['isotope'] = [L for L in pep['isotope'] if L in ('13C', '15N')]
        return {'pep': pep, 'plus': draw(st.booleans()), 'precision': draw(st.integers(3, 8))}
    return strat()


def parts(tier):
    n = 3000 if tier == 'quick' else 100000
    return [Part(name='condense', kind='hyp', check_case=check_case, strategy=strategy, examples=n)]
