"""C04 - fragmentation enumerates every ion once and agrees with the mass calculator."""
import itertools
from collections import Counter

from hypothesis import strategies as st

from pv import gen, model, refchem, refmass
from pv.runner import Part, Result

ID = 'C04'
TITLE = 'Fragmentation enumerates every ion once and agrees with the mass calculator'
RULE = ('case = peptide model of length 1..12 (residue, terminal, static, isotope-label modifications) x non-empty subset of the 16 '
        'ion types x charge list in [1,4] x isotope list in [0,3] x water/ammonia/custom losses with max_losses 1..3 x mono/avg x '
        'precision x return type; non-trivial = length >= 3, at least one modification and (>= 2 ion types or a loss or an isotope > 0)')
ASSUMPTIONS = [
    'custom loss patterns are single residues, character classes, or fixed-length patterns of 2-3 items (letter, any residue, class); hits are counted by an own scanner (non-overlapping, leftmost), no regex engine',
    'with a precision p a reported mass or m/z lies within half a unit of 10^-p of the unrounded value of the mass calculator (rounding the mass first and dividing afterwards, as the fragmenter did before fix, is up to 0.75 units off and is reported)',
]

TERMINAL_F, TERMINAL_B = ['a', 'b', 'c'], ['x', 'y', 'z']
INTERNAL = ['ax', 'ay', 'az', 'bx', 'by', 'bz', 'cx', 'cy', 'cz']
ALL = TERMINAL_F + TERMINAL_B + INTERNAL + ['i']
RETURN_TYPES = ['fragment', 'mass', 'mz', 'label', 'mass-label', 'mz-label']


def ref_spans(n, t):
    if t in TERMINAL_F:
        return [(0, k) for k in range(1, n + 1)]
    if t in TERMINAL_B:
        return [(k, n) for k in range(0, n)]
    if t == 'i':
        return [(k, k + 1) for k in range(n)]
    return [(i, j) for i in range(1, n) for j in range(i + 1, n)]


def _hits(residues, spec):
    """number of places a loss rule applies to.  spec = a set of letters (one hit per residue in the set), or 're:' followed by a
    fixed-length pattern whose items are a letter, '.', or a class written [XY]: non-overlapping leftmost matches (own scanner)"""
    if not spec.startswith('re:'):
        return sum(1 for aa in residues if aa in spec)
    items, pat, k = [], spec[3:], 0
    while k < len(pat):
        if pat[k] == '[':
            e = pat.index(']', k)
            items.append(set(pat[k + 1:e]))
            k = e + 1
        else:
            items.append(None if pat[k] == '.' else {pat[k]})
            k += 1
    n, i, L = 0, 0, len(items)
    while i + L <= len(residues):
        if all(it is None or residues[i + j] in it for j, it in enumerate(items)):
            n += 1
            i += L
        else:
            i += 1
    return n


def ref_losses(residues, rules, max_losses):
    """rules: list of (spec, loss), see _hits.  distinct sums of up to max_losses applicable losses, 0 always"""
    pool = []
    for letters, loss in rules:
        pool.extend([loss] * _hits(residues, letters))
    out = {0.0}
    for k in range(1, max_losses + 1):
        for combo in itertools.combinations(pool, k):
            out.add(round(sum(combo), 6))
    return out


def _number(t, n, a, b):
    if t in TERMINAL_F:
        return b
    if t in TERMINAL_B:
        return n - a
    if t == 'i':
        return a
    return f'{a}-{b}'


def _label(t, z, number, loss, iso):
    return '+' * z + t + str(number) + (f'({loss})' if loss != 0.0 else '') + ('*' * iso if iso > 0 else '')


def check_case(case) -> Result:
    import peptacular as pt
    r = Result()
    pep = case['pep']
    n = len(pep['seq'])
    s = model.write_pep(pep)
    ions, charges, isotopes = case['ions'], case['charges'], case['isotopes']
    mono, prec, rt = case['mono'], case['precision'], case['rt']
    rules = []
    if case['water']:
        rules.append(('STED', -18.01056))
    if case['ammonia']:
        rules.append(('RKNQ', -17.02655))
    custom = [(c[0], c[1]) for c in case['custom']]
    lib_custom = [(letters[3:] if letters.startswith('re:') else (f'[{letters}]' if len(letters) > 1 else letters), loss)
                  for letters, loss in custom]
    # library order: custom losses first, then water, then ammonia
    all_rules = custom + rules
    has_mod = bool(pep['internal'] or pep['nterm'] or pep['cterm'] or pep['static'] or pep['isotope'])
    has_loss = bool(all_rules)
    r.nontrivial = n >= 3 and has_mod and (len(ions) >= 2 or has_loss or any(i > 0 for i in isotopes))
    static_term = any(t in ('N-Term', 'C-Term') for _ms, tg in pep['static'] for t in tg)
    r.classes = [f'rt={rt}', f'mono={mono}'] + (['losses'] if has_loss else []) + (['static'] if pep['static'] else []) + \
        (['static-terminal-rule'] if static_term else []) + (['label'] if pep['isotope'] else []) + (['precision'] if prec is not None else []) + \
        (['internal-types'] if set(ions) & set(INTERNAL) else []) + (['immonium'] if 'i' in ions else []) + (['labile'] if pep['labile'] else [])
    kw = dict(monoisotopic=mono, isotopes=list(isotopes), water_loss=case['water'], ammonia_loss=case['ammonia'],
              max_losses=case['max_losses'], precision=prec)
    ctx = dict(sequence=s, ions=ions, charges=charges, isotopes=isotopes, losses=all_rules, max_losses=case['max_losses'], mono=mono,
               precision=prec)

    def call(return_type, via_fragmenter=False):
        losses = [tuple(x) for x in lib_custom] if lib_custom else None
        if via_fragmenter:
            fr = pt.Fragmenter(s, monoisotopic=mono)
            k2 = dict(kw)
            k2.pop('monoisotopic')
            return fr.fragment(list(ions), list(charges), losses=losses, return_type=return_type, **k2)
        return pt.fragment(s, list(ions), list(charges), losses=losses, return_type=return_type, **kw)

    frags = call('fragment')
    # (a) enumeration
    exp = Counter()
    for t in ions:
        for (a, b) in ref_spans(n, t):
            for loss in ref_losses(pep['seq'][a:b], all_rules, case['max_losses']):
                for z in charges:
                    for iso in isotopes:
                        exp[(t, a, b, z, iso, loss)] += 1
    got = Counter((f.ion_type, f.start, f.end, f.charge, f.isotope, round(f.loss, 6)) for f in frags)
    if got != exp:
        missing = list((exp - got).elements())[:6]
        extra = list((got - exp).elements())[:6]
        dup = [k for k, v in got.items() if v > 1][:6]
        if dup:
            sig = 'C04/enumeration/duplicate-ion'
        elif missing and not extra:
            kinds = {('loss' if m[5] != 0 else ('internal' if m[0] in INTERNAL else ('immonium' if m[0] == 'i' else 'terminal'))) for m in missing}
            sig = 'C04/enumeration/missing-ion/' + '+'.join(sorted(kinds))
        elif extra and not missing:
            kinds = {('loss' if m[5] != 0 else ('internal' if m[0] in INTERNAL else ('immonium' if m[0] == 'i' else 'terminal'))) for m in extra}
            sig = 'C04/enumeration/spurious-ion/' + '+'.join(sorted(kinds))
        else:
            sig = 'C04/enumeration/wrong-set'
        r.fail('exactly one ion per requested (type, cleavage position, charge, isotope, applicable loss)', sig, missing=missing,
               spurious=extra, duplicates=dup, **ctx)
    # (b) carry-over and (c) agreement with the mass calculator
    seen = set()
    base = model.m_slice(pep, 0, n, keep_labile=False)
    for f in frags:
        key = (f.ion_type, f.start, f.end)
        t, a, b = key
        if key not in seen:
            seen.add(key)
            sl = model.m_slice(base, a, b)
            try:
                obs = model.project(pt.parse(f.sequence))
            except ValueError as e:
                r.fail('fragment sequence parses', 'C04/carry-over/sequence-does-not-parse', fragment=f.sequence, error=str(e)[:100], **ctx)
                break
            expp = model.expected(sl)
            if obs != expp:
                r.fail('each ion carries the modifications that sit on its residues and termini',
                       'C04/carry-over/' + '+'.join(model.diff_fields(expp, obs)), ion=t, span=[a, b], fragment=f.sequence,
                       expected=expp, got=obs, **ctx)
                break
            if f.unmod_sequence != pep['seq'][a:b]:
                r.fail('unmodified fragment sequence', 'C04/carry-over/unmod-sequence', ion=t, span=[a, b], got=f.unmod_sequence, **ctx)
                break
            if f.internal != (a != 0 and b != n):
                r.fail('internal flag', 'C04/fragment/internal-flag', ion=t, span=[a, b], got=f.internal, **ctx)
                break
        num = _number(t, n, a, b)
        if f.number != num or f.label != _label(t, f.charge, num, f.loss, f.isotope):
            r.fail('number and label follow from (type, span, parent length)', 'C04/fragment/number-or-label', ion=t, span=[a, b],
                   number=f.number, label=f.label, expected=_label(t, f.charge, num, f.loss, f.isotope), **ctx)
            break
    # agreement on a sample of fragments (all if few)
    idx = list(range(len(frags))) if len(frags) <= 60 else sorted({i % len(frags) for i in case['sample']})
    unit = 10 ** (-prec) if prec is not None else 0
    for i in idx:
        f = frags[i]
        m = pt.mass(f.sequence, ion_type=f.ion_type, charge=f.charge, isotope=f.isotope, loss=f.loss, monoisotopic=mono)
        m0 = pt.mass(f.sequence, ion_type=f.ion_type, charge=0, isotope=f.isotope, loss=f.loss, monoisotopic=mono)
        # average mode: the property does not say whether a charge carrier is the CODATA proton or average hydrogen minus an
        # electron (the two calculators differ by 1.16e-4 per carrier when a label routes mass() through the composition path)
        slack = 0.0  # both numbers come from the library: fragmenter and mass calculator must agree on what a charge carrier weighs
        tolm = 1e-6 + slack + (unit / 2 if prec is not None else 0)
        bad = None
        if abs(f.mass - m) > tolm:
            bad = ('mass', f.mass, m)
        elif abs(f.neutral_mass - m0) > 1e-6 + slack:
            bad = ('neutral_mass', f.neutral_mass, m0)
        elif abs(f.mz - m / f.charge) > 1e-6 + slack + (unit / 2 if prec is not None else 0):
            bad = ('mz', f.mz, m / f.charge)
        elif prec is not None and (round(f.mass, prec) != f.mass or round(f.mz, prec) != f.mz):
            bad = ('precision', f.mass, f.mz)
        if bad:
            d = bad[1] - bad[2]
            sig = _known_quirk(pep, f, mono, bad, slack + tolm) or (f'C04/agreement/{bad[0]}' + ('/average' if not mono else ''))
            r.fail("each ion's mass and m/z equal what the mass calculator gives for that ion's own sequence", sig, ion=f.ion_type,
                   span=[f.start, f.end], charge=f.charge, isotope=f.isotope, loss=f.loss, fragment=f.sequence, field=bad[0],
                   fragmenter=bad[1], mass_calc=bad[2], diff=d, **ctx)
            break
    # (d) projections
    proj = {
        'mass': lambda f: f.mass, 'mz': lambda f: f.mz, 'label': lambda f: f.label,
        'mass-label': lambda f: (f.mass, f.label), 'mz-label': lambda f: (f.mz, f.label),
    }
    if rt != 'fragment':
        out = call(rt)
        expv = [proj[rt](f) for f in frags]
        if out != expv:
            k = next((i for i, (x, y) in enumerate(zip(out, expv)) if x != y), None)
            sig = f'C04/projection/{rt}'
            if 'label' in rt and k is not None:
                lab = out[k] if rt == 'label' else out[k][1]
                if frags[k].ion_type in TERMINAL_B and lab != frags[k].label:
                    sig = 'C04/projection/label-numbering-of-suffix-ions'
            r.fail('every return type is a projection of the same list', sig, index=k, got=str(out[k] if k is not None else len(out)),
                   expected=str(expv[k] if k is not None else len(expv)), **ctx)
    if rt != 'fragment':
        out_f = call(rt, via_fragmenter=True)
        if out_f != call(rt):
            r.fail('the cached Fragmenter gives the same list', 'C04/fragmenter-differs/projection', return_type=rt, **ctx)
    fr_out = call('fragment', via_fragmenter=True)
    a1 = [(f.ion_type, f.start, f.end, f.charge, f.isotope, f.loss, f.mass, f.mz, f.sequence) for f in fr_out]
    a2 = [(f.ion_type, f.start, f.end, f.charge, f.isotope, f.loss, f.mass, f.mz, f.sequence) for f in frags]
    if a1 != a2:
        r.fail('the cached Fragmenter gives the same list', 'C04/fragmenter-differs', n_fragment=len(a2), n_fragmenter=len(a1), **ctx)
    # the same projection with every optional argument left at its default (isotope 0, no losses, monoisotopic, no precision)
    key = lambda f: (f.ion_type, f.start, f.end, f.charge, f.isotope, f.loss, round(f.mass, 6), f.sequence)  # noqa
    d1 = [key(f) for f in pt.fragment(s, list(ions), list(charges))]
    d2 = [key(f) for f in pt.Fragmenter(s).fragment(list(ions), list(charges))]
    d3 = [key(f) for f in pt.fragment(s, list(ions), list(charges), monoisotopic=True, isotopes=[0], water_loss=False, ammonia_loss=False,
                                      losses=None, precision=None)]
    if d1 != d3 or d2 != d3:
        r.fail('the cached Fragmenter gives the same list', 'C04/defaults-differ-between-fragment-and-Fragmenter', n_fragment=len(d1),
               n_fragmenter=len(d2), n_explicit=len(d3), sequence=s, ions=list(ions), charges=list(charges))
    return r


def _static_term_amount(pep, f, mono):
    """a static N-Term/C-Term rule weighed once per residue of the fragment instead of once"""
    from pv import refmods
    per = 0.0
    for ms, tg in pep['static']:
        nt = sum(1 for t in tg if t in ('N-Term', 'C-Term'))
        per += refmods.mods_mass(ms, mono) * nt
    return per * (f.end - f.start - 1)


def _label_amount(pep, f, mono, charge):
    """ion-type offset atoms and charge-carrier hydrogens weighed unlabelled by the fragmenter, labelled by mass()"""
    t = f.ion_type
    if t in refmass.ION_OFFSET:
        off = dict(refmass.ION_OFFSET[t])
    elif t == 'i':
        off = {'C': -1, 'O': -1}
    else:
        off = refchem.add_comp(refmass.DELTA[t[0]], refmass.DELTA[t[1]])
    off = refchem.add_comp(off, {'H': charge})
    lab = {}
    for k, v in off.items():
        key = k
        for L in pep['isotope']:
            el = 'H' if L in ('D', 'T') else L.lstrip('0123456789')
            if el == k:
                key = L
        lab[key] = lab.get(key, 0) + v
    return refchem.comp_mass(off, mono) - refchem.comp_mass(lab, mono)


def _known_quirk(pep, f, mono, bad, tol):
    """signature of the known deviation(s) that explain this disagreement exactly, else None"""
    if bad[0] not in ('mass', 'neutral_mass', 'mz'):
        return None
    d = bad[1] - bad[2]
    if bad[0] == 'mz':
        d *= f.charge
    z = 0 if bad[0] == 'neutral_mass' else f.charge
    qs = 0.0  # (static N-Term / C-Term rules counted per residue: fixed by 99d59c3, no longer a known deviation)
    ql = _label_amount(pep, f, mono, z) if pep['isotope'] else 0.0
    # average mode: tabulated average masses of named modifications differ from their composition-derived average by up to ~1e-3 each (C03 tolerance)
    tol = tol + 1e-5 + ((1e-4 if mono else 2e-3) * (f.end - f.start) + (0 if mono else 1e-5 * abs(qs)))
    if qs and abs(d - qs) <= tol:
        return 'C04/agreement/static-terminal-rule-counted-per-residue'
    if ql and abs(d - ql) <= tol:
        return 'C04/agreement/isotope-label-not-applied-to-ion-offset'
    if qs and ql and abs(d - qs - ql) <= tol:
        return 'C04/agreement/static-terminal-rule-counted-per-residue'
    return None


def check_ambiguous(case) -> Result:
    """documented: ambiguous sequences (intervals / unknown-position modifications) are refused"""
    import peptacular as pt
    r = Result()
    r.nontrivial = True
    r.classes = ['ambiguous']
    s = model.write_pep(case['pep'])
    try:
        pt.fragment(s, 'b', 1)
    except ValueError:
        return r
    r.fail('fragmenting an ambiguous sequence raises ValueError', 'C04/ambiguous-not-refused', sequence=s)
    return r


def strategy():
    one = gen.mass_mod(('num', 'formula', 'unimod'), max_mult=2)
    st_text = gen.mass_mod_text(('num', 'formula', 'unimod'), gt_ok=False)
    pm = gen.pep_model(alphabet=gen.AA20 + 'UOJ', min_len=1, max_len=12, kinds=('internal', 'nterm', 'cterm', 'static', 'isotope', 'labile'),
                       mod_strategy=one, mod_list=st.lists(one, min_size=1, max_size=2), allow_empty=False, static_mod_text=st_text,
                       isotopes=['13C', '15N', '18O', 'D'])
    single = st.lists(st.sampled_from('STEDRKNQAGP'), min_size=1, max_size=3, unique=True).map(lambda x: ''.join(sorted(x)))
    # patterns that span residues: two or three fixed items (letter, any residue, class)
    item = st.one_of(st.sampled_from('STEDKPAG'), st.sampled_from('STEDKPAG'), st.just('.'), st.sampled_from(['[ST]', '[DE]', '[KR]', '[AG]']))
    multi = st.lists(item, min_size=2, max_size=3).map(lambda xs: 're:' + ''.join(xs))
    letters = st.one_of(single, single, multi)
    custom = st.lists(st.tuples(letters, st.sampled_from([-10.0, -5.0, -97.9769, -18.01056, 12.5])).map(list), max_size=2)

    @st.composite
    def strat(draw):
        pep = draw(pm)
        if not draw(st.integers(0, 3)) == 1:
            pep['isotope'] = []  # labels in a quarter of the cases
        ions = draw(st.one_of(st.lists(st.sampled_from(ALL), min_size=1, max_size=4, unique=True),
                              st.lists(st.sampled_from(['b', 'y', 'a', 'c', 'x', 'z']), min_size=1, max_size=3, unique=True),
                              st.just(list(ALL))))
        return {'pep': pep, 'ions': ions,
                'charges': draw(st.lists(st.integers(1, 4), min_size=1, max_size=3, unique=True)),
                'isotopes': draw(st.one_of(st.just([0]), st.lists(st.integers(0, 3), min_size=1, max_size=3, unique=True))),
                'water': draw(st.booleans()), 'ammonia': draw(st.booleans()),
                'custom': draw(st.one_of(st.just([]), custom)), 'max_losses': draw(st.integers(1, 3)),
                'mono': draw(st.booleans()), 'precision': draw(st.one_of(st.none(), st.none(), st.integers(0, 6))),
                'rt': draw(st.sampled_from(RETURN_TYPES)), 'sample': draw(st.lists(st.integers(0, 5000), min_size=25, max_size=25))}
    return strat()


def ambiguous_strategy():
    one = gen.mass_mod(('num',), max_mult=1)
    pm = gen.pep_model(alphabet=gen.AA20, min_len=2, max_len=8, kinds=('internal', 'unknown', 'intervals'), mod_strategy=one,
                       allow_empty=False)

    @st.composite
    def strat(draw):
        pep = draw(pm)
        if not pep['unknown'] and not pep['intervals']:
            pep['unknown'] = [['+1', 1]]
        return {'pep': pep}
    return strat()


def parts(tier):
    n = 2000 if tier == 'quick' else 60000
    return [
        Part(name='fragments', kind='hyp', check_case=check_case, strategy=strategy, examples=n),
        Part(name='ambiguous', kind='hyp', check_case=check_ambiguous, strategy=ambiguous_strategy, examples=200 if tier == 'quick' else 3000),
    ]
