"""C17 - spectrum matching pairs each fragment with exactly the peaks in tolerance."""
import math
from collections import Counter

from hypothesis import strategies as st

from pv.runner import Part, Result

ID = 'C17'
TITLE = 'Spectrum matching pairs each fragment with exactly the peaks in tolerance'
RULE = ('case = sorted theoretical list x sorted observed list (length 0..30, coarse grid 100+k/2 or off-grid) x tolerance '
        'type/value x mode x intensities with ties; fragment part: fragments of a generated peptide in shuffled order '
        'against unsorted peaks; non-trivial = some tolerance window holds >= 2 peaks or two windows overlap')
ASSUMPTIONS = [
    'brute-force matcher: index j matches value v iff v - off <= peak[j] <= v + off with off = tol (th) or v*tol/1e6 (ppm), the same float expressions as the documented definition',
    'matched-intensity clause: a peak is an (index, m/z, intensity) entry of the spectrum, so two peaks may share an m/z; with tied m/z the exact value is asserted in mode all (closest / largest may pick either tied peak: range only)',
    'coverage: one count per matched FRAGMENT object, however many peaks it matched',
    'binomial clause: tolerance > 0 and the observed spectrum spans a non-zero range',
]


def _window(v, tol, typ):
    off = tol if typ == 'th' else v * tol / 1e6
    return v - off, v + off


def brute(theo, obs, tol, typ):
    out = []
    for v in theo:
        lo, hi = _window(v, tol, typ)
        out.append([j for j, p in enumerate(obs) if lo <= p <= hi])
    return out


def check_lists(case) -> Result:
    import peptacular as pt
    r = Result()
    theo, obs, tol, typ, inten = case['theo'], case['obs'], case['tol'], case['type'], case['intensity']
    exp = brute(theo, obs, tol, typ)
    wins = [_window(v, tol, typ) for v in theo]
    r.nontrivial = any(len(e) >= 2 for e in exp) or any(a[1] >= b[0] for a, b in zip(wins, wins[1:]))
    r.classes = [f'type={typ}'] + (['multi-peak-window'] if any(len(e) >= 2 for e in exp) else []) + \
        (['overlapping-windows'] if any(a[1] >= b[0] for a, b in zip(wins, wins[1:])) else []) + \
        (['tol=0'] if tol == 0 else []) + (['no-match'] if not any(exp) else []) + \
        (['empty-obs'] if not obs else []) + (['empty-theo'] if not theo else [])
    ctx = dict(theo=theo, obs=obs, tol=tol, type=typ)

    got = pt.get_matched_indices(theo, obs, tol, typ)
    if not isinstance(got, list) or len(got) != len(theo):
        r.fail('one entry per theoretical value', 'C17/get_matched_indices/length', got=str(got)[:200], **ctx)
    else:
        for i, (g, e) in enumerate(zip(got, exp)):
            gl = None if g is None else list(range(g[0], g[1]))
            if (gl or None) != (e or None):
                kind = 'missing' if e and (gl is None or set(e) - set(gl)) else 'spurious'
                r.fail("'all' returns precisely the peaks within tolerance (bounds inclusive)",
                       f'C17/get_matched_indices/{kind}', index=i, expected=e, got=g, **ctx)
                break

    for mode in ('all', 'closest', 'largest'):
        got = pt.match_spectra(theo, obs, tol, typ, mode, inten)
        if not isinstance(got, list) or len(got) != len(theo):
            r.fail('one entry per theoretical value', f'C17/match_spectra/{mode}/length', got=str(got)[:200], **ctx)
            continue
        for i, (g, e) in enumerate(zip(got, exp)):
            if not e:
                if g is not None:
                    r.fail('no match is reported when there is none', f'C17/match_spectra/{mode}/spurious', index=i, got=g, **ctx)
                    break
                continue
            if g is None:
                r.fail('a match is reported when there is one', f'C17/match_spectra/{mode}/missing', index=i, expected=e, **ctx)
                break
            if mode == 'all':
                if list(g) != e:
                    r.fail("'all' returns precisely the peaks within tolerance", 'C17/match_spectra/all/wrong', index=i,
                           expected=e, got=g, **ctx)
                    break
            elif mode == 'closest':
                best = min(abs(theo[i] - obs[j]) for j in e)
                if g not in e or abs(theo[i] - obs[g]) != best:
                    r.fail("'closest' returns a peak in tolerance with minimal distance", 'C17/match_spectra/closest/wrong',
                           index=i, candidates=e, got=g, **ctx)
                    break
            else:
                best = max(inten[j] for j in e)
                if g not in e or inten[g] != best:
                    r.fail("'largest' returns a peak in tolerance with maximal intensity", 'C17/match_spectra/largest/wrong',
                           index=i, candidates=e, got=g, intensity=inten, **ctx)
                    break

    # binomial score uses the brute-force match count
    if tol >= 1e-6 and len(set(obs)) >= 2 and theo:
        k = sum(1 for e in exp if e)
        n = len(theo)
        rng = max(obs) - min(obs)
        tr = (sum(obs) / len(obs)) * tol / 1e6 if typ == 'ppm' else tol
        p = len(obs) / (rng / tr)
        expv = math.comb(n, k) * (p ** k) * ((1 - p) ** (n - k))
        got = pt.binomial_score(theo, obs, tol, typ)
        if not isinstance(got, (int, float)) or abs(got - expv) > 1e-9 * max(1.0, abs(expv)):
            r.fail('binomial score uses the number of theoretical values that have a match', 'C17/binomial_score/wrong',
                   expected=expv, got=got, k=k, n=n, **ctx)
    return r


def check_fragments(case) -> Result:
    import peptacular as pt
    r = Result()
    frags0 = pt.fragment(case['peptide'], case['ion_types'], case['charges'])
    order = case['order']
    frags = [frags0[i % len(frags0)] for i in order] if frags0 else []
    # de-duplicate by identity after modulo
    seen, fl = set(), []
    for i in order:
        k = i % len(frags0)
        if k not in seen:
            seen.add(k)
            fl.append(frags0[k])
    frags = fl
    # peaks: some fragment m/z values displaced by a delta, plus noise
    peaks = []
    for i, d, inten in case['peaks']:
        peaks.append((frags0[i % len(frags0)].mz + d, inten))
    for v, inten in case['noise']:
        peaks.append((v, inten))
    if case['distinct']:
        u = {}
        for m, i in peaks:
            u.setdefault(m, i)
        peaks = list(u.items())
    if case.get('dark'):
        peaks = [(m, 0.0) for m, _i in peaks]
    mzs = [p[0] for p in peaks]
    ints = [p[1] for p in peaks]
    tol, typ, mode = case['tol'], case['type'], case['mode']
    ctx = dict(peptide=case['peptide'], n_frag=len(frags), peaks=peaks[:20], tol=tol, type=typ, mode=mode)

    exp_pairs = Counter()
    per_frag = []
    for f in frags:
        lo, hi = _window(f.mz, tol, typ)
        c = [(m, i) for m, i in peaks if lo <= m <= hi]
        per_frag.append(c)
        for m, i in c:
            exp_pairs[(id(f), m, i)] += 1
    r.nontrivial = any(len(c) >= 2 for c in per_frag)
    r.classes = [f'mode={mode}', f'type={typ}'] + (['empty-spectrum'] if not peaks else []) + (['zero-total-intensity'] if peaks and not any(i for _m, i in peaks) else []) + \
        (['multi-match'] if r.nontrivial else []) + (['no-match'] if not any(per_frag) else [])

    if not peaks:
        try:
            got = pt.get_fragment_matches(list(frags), [], [], tol, typ, mode)
        except ValueError as e:
            r.fail('an empty spectrum gives no matches', 'C17/get_fragment_matches/empty-spectrum-raises', error=str(e)[:100], **ctx)
            return r
        if got:
            r.fail('an empty spectrum gives no matches', 'C17/get_fragment_matches/empty-spectrum-matches', **ctx)
            return r
        gv = pt.get_matched_intensity_percentage([], [])
        if gv != 0:
            r.fail('matched-intensity fraction of an empty spectrum is 0', 'C17/get_matched_intensity_percentage/empty-spectrum', got=gv, **ctx)
        gc = pt.get_match_coverage([])
        if gc != {}:
            r.fail('no matches cover nothing', 'C17/get_match_coverage/empty', got=gc, **ctx)
        return r

    got = pt.get_fragment_matches(list(frags), list(mzs), list(ints), tol, typ, mode)
    got_pairs = Counter((id(m.fragment), m.mz, m.intensity) for m in got)
    if mode == 'all':
        if got_pairs != exp_pairs:
            r.fail('fragment matches pair each fragment with exactly the peaks in tolerance, regardless of input order',
                   'C17/get_fragment_matches/all/wrong', expected=len(exp_pairs), got=len(got_pairs), **ctx)
    else:
        by_frag = {}
        for m in got:
            by_frag.setdefault(id(m.fragment), []).append(m)
        for f, c in zip(frags, per_frag):
            ms = by_frag.get(id(f), [])
            if not c:
                if ms:
                    r.fail('no match is reported when there is none', f'C17/get_fragment_matches/{mode}/spurious', **ctx)
                    break
                continue
            if len(ms) != 1:
                r.fail('one match per fragment that has a peak in tolerance', f'C17/get_fragment_matches/{mode}/count',
                       got=len(ms), **ctx)
                break
            m = ms[0]
            if (m.mz, m.intensity) not in c:
                r.fail('the matched peak lies in tolerance', f'C17/get_fragment_matches/{mode}/outside', **ctx)
                break
            if mode == 'closest' and abs(f.mz - m.mz) != min(abs(f.mz - x[0]) for x in c):
                r.fail("'closest' is a peak with minimal distance", 'C17/get_fragment_matches/closest/wrong', **ctx)
                break
            if mode == 'largest' and m.intensity != max(x[1] for x in c):
                r.fail("'largest' is a peak with maximal intensity", 'C17/get_fragment_matches/largest/wrong', **ctx)
                break

    # same result for another input order (all mode: identical multiset)
    if mode == 'all':
        got2 = pt.get_fragment_matches(list(reversed(frags)), list(reversed(mzs)), list(reversed(ints)), tol, typ, mode)
        if Counter((id(m.fragment), m.mz, m.intensity) for m in got2) != got_pairs:
            r.fail('matches do not depend on input order', 'C17/get_fragment_matches/order-dependent', **ctx)

    # matched intensity share: the distinct matched PEAKS (two peaks may share an m/z value) over the total
    tot = sum(ints)
    expv = None
    if case['distinct']:
        matched = {}
        for m in got:
            matched[m.mz] = m.intensity
        expv = (sum(matched.values()) / tot) if tot else 0
    elif mode == 'all':
        idx = set()
        for f in frags:
            lo, hi = _window(f.mz, tol, typ)
            idx |= {j for j, (m, _i) in enumerate(peaks) if lo <= m <= hi}
        expv = (sum(ints[j] for j in idx) / tot) if tot else 0
    try:
        gv = pt.get_matched_intensity_percentage(got, ints)
    except AttributeError as e:
        r.fail('matched-intensity fraction', 'C17/get_matched_intensity_percentage/AttributeError', error=str(e)[:120], **ctx)
        gv = None
    if gv is not None and not (0 <= gv <= 1):
        r.fail('matched-intensity fraction lies in [0,1]', 'C17/get_matched_intensity_percentage/out-of-range', got=gv, **ctx)
    elif gv is not None and expv is not None and abs(gv - expv) > 1e-9:
        # matches carry the peak's m/z and intensity but not its index; the library keys the matched peaks by m/z
        by_mz = {}
        for m in got:
            by_mz[m.mz] = m.intensity
        merged = (sum(by_mz.values()) / tot) if tot else 0
        sig = 'C17/get_matched_intensity_percentage/wrong'
        if not case['distinct'] and abs(gv - merged) <= 1e-12:
            sig = 'C17/get_matched_intensity_percentage/distinct-peaks-with-equal-mz-merged'
        r.fail('matched-intensity fraction = intensity of distinct matched peaks / total, in [0,1]', sig, expected=expv, got=gv, **ctx)

    # coverage: each matched FRAGMENT (however many peaks it matched) adds one to each residue of its span
    n = len(pt.strip_mods(case['peptide']))
    cov = {}
    seen = set()
    for m in got:
        f = m.fragment
        if id(f) in seen:
            continue
        seen.add(id(f))
        lab = '+' * f.charge + f.ion_type
        cov.setdefault(lab, [0] * n)
        for i in range(f.start, f.end):
            cov[lab][i] += 1
    gc = pt.get_match_coverage(got)
    if gc != cov:
        r.fail("coverage counts each matched fragment's residues once", 'C17/get_match_coverage/wrong' + ('/counted-once-per-matched-peak' if len(seen) < len(got) else ''), expected=cov, got=gc, **ctx)
    return r


# ---- strategies --------------------------------------------------------------------------------

def lists_strategy():
    grid = st.integers(0, 60).map(lambda k: 100 + k / 2)
    off = st.floats(100, 130, allow_nan=False, allow_infinity=False)
    big = st.floats(50, 3000, allow_nan=False, allow_infinity=False)
    val = st.one_of(grid, grid, off, big)
    srt = lambda n: st.lists(val, max_size=n).map(sorted)  # noqa
    th_tol = st.one_of(st.sampled_from([0.0, 0.5, 1.0, 0.25, 2.0, 1000.0, 5000.0]), st.floats(1e-6, 3, allow_nan=False))
    ppm_tol = st.one_of(st.sampled_from([0.0, 10.0, 20.0, 5000.0, 10000.0, 500000.0]), st.floats(1e-3, 20000, allow_nan=False))

    @st.composite
    def strat(draw):
        theo = draw(srt(30))
        obs = draw(srt(30))
        if obs and theo and draw(st.booleans()):
            # plant exact boundary hits: peak exactly at v +/- tol
            v = draw(st.sampled_from(theo))
            t = draw(st.sampled_from([0.5, 1.0]))
            obs = sorted(obs + [v - t, v + t])[:32]
            typ, tol = 'th', t
        elif obs and theo and draw(st.integers(0, 3)) == 0:
            # relative tolerance: peaks a hair inside and a hair outside either bound (the bound itself depends on the order of
            # the floating-point operations, which the statement does not fix)
            v = draw(st.sampled_from(theo))
            typ, tol = 'ppm', draw(st.sampled_from([5.0, 20.0, 1000.0]))
            off = v * tol / 1e6
            obs = sorted(obs + [v - off * (1 + 1e-6), v - off * (1 - 1e-6), v + off * (1 - 1e-6), v + off * (1 + 1e-6)])[:34]
        else:
            typ = draw(st.sampled_from(['th', 'ppm']))
            tol = draw(th_tol if typ == 'th' else ppm_tol)
        inten = [draw(st.sampled_from([1.0, 1.0, 2.0, 5.0, 10.0, 0.0])) for _ in obs]
        return {'theo': theo, 'obs': obs, 'tol': tol, 'type': typ, 'intensity': inten}
    return strat()


def fragments_strategy():
    pep = st.text('ACDEGKLMPSTRV', min_size=2, max_size=9)
    mods = st.sampled_from(['', '[Oxidation]', '[+15.995]', '[Phospho]'])

    @st.composite
    def strat(draw):
        s = draw(pep)
        k = draw(st.integers(0, len(s) - 1))
        peptide = s[:k + 1] + draw(mods) + s[k + 1:]
        npk = draw(st.integers(0, 12))
        peaks = [[draw(st.integers(0, 40)), draw(st.sampled_from([0.0, 0.0, 0.001, -0.001, 0.01, -0.02, 0.3, 0.5, -0.5])),
                  draw(st.sampled_from([1.0, 2.0, 5.0, 5.0, 10.0, 0.0, 0.3, 3.3, 0.1, 0.7]))] for _ in range(npk)]
        noise = [[draw(st.floats(50, 1200, allow_nan=False)), draw(st.sampled_from([1.0, 3.0, 7.0, 0.3, 0.1]))]
                 for _ in range(draw(st.integers(0, 4)))]
        if draw(st.integers(0, 5)) == 2:
            # every peak is matched: the fraction is exactly 1 (sums of intensities given as a mixture of int and float, taken in two orders, differ in the last bit)
            peaks = [[draw(st.integers(0, 40)), 0.0, draw(st.sampled_from([0.3, 3.3, 5, 1, 0.1, 2, 0.7, 3, 1.1]))] for _ in range(draw(st.integers(2, 8)))]  # whole numbers as int
            noise = []
        typ = draw(st.sampled_from(['th', 'ppm']))
        tol = draw(st.sampled_from([0.0, 0.005, 0.02, 0.5, 1.0])) if typ == 'th' else draw(st.sampled_from([0.0, 5.0, 20.0, 1000.0]))
        return {'peptide': peptide, 'ion_types': draw(st.sampled_from([['b'], ['y'], ['b', 'y'], ['a', 'b', 'y']])),
                'charges': draw(st.sampled_from([[1], [1, 2], [2]])), 'order': draw(st.permutations(list(range(40)))),
                'peaks': peaks, 'noise': noise, 'distinct': draw(st.booleans()), 'dark': draw(st.integers(0, 9)) == 4, 'tol': tol, 'type': typ,
                'mode': draw(st.sampled_from(['all', 'all', 'closest', 'largest']))}
    return strat()


def parts(tier):
    n = 10000 if tier == 'quick' else 500000
    return [
        Part(name='lists', kind='hyp', check_case=check_lists, strategy=lists_strategy, examples=n),
        Part(name='fragments', kind='hyp', check_case=check_fragments, strategy=fragments_strategy, examples=n // 3),
    ]
