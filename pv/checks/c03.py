"""C03 - mass calculator and elemental-composition calculator always agree."""
from hypothesis import strategies as st

from pv import gen, model, obo, refchem, refmass, refmods
from pv.runner import Part, Result

ID = 'C03'
TITLE = 'Mass calculator and elemental-composition calculator always agree'
RULE = ('random part: generated annotation (all placements and kinds, multipliers 1-3, | alternatives, tags, intervals, labile, '
        'unknown, static rules incl. N-Term/C-Term, isotope labels) x ion type (16 + p, n) x charge -3..4 or from the string x '
        'isotope 0..3 x mono/average x adducts in the string or as argument; exhaustive part: every Unimod entry (average mode: '
        'C,H,N,O,P,S entries) and every self-consistent PSI-MOD row; non-trivial = a composition-bearing and a pure-shift '
        'modification together, or a fragment ion type with charge != 1, or adducts, or average mode')
ASSUMPTIONS = [
    'the composition is weighed with pv/refchem.py (second weigher: the library chem_mass)',
    'average mode: named modifications restricted to C,H,N,O,P,S compositions (the upstream table uses other atomic weights for metals); PSI-MOD rows must be self-consistent as decided from the OBO file alone',
    'tolerances as stated: 1e-4 Da monoisotopic; average mode 1e-3 Da + 5 ppm of the modification mass per table entry used (at least 1e-3): each tabulated average mass is rounded separately (PSI-MOD: 2 decimals), a glycan uses one entry per monosaccharide unit; numeric shifts and formulas earn no allowance',
]

IONS = ['p', 'n', 'a', 'b', 'c', 'x', 'y', 'z', 'ax', 'ay', 'az', 'bx', 'by', 'bz', 'cx', 'cy', 'cz', 'i']
KINDS = ('labile', 'static', 'isotope', 'unknown', 'nterm', 'cterm', 'internal', 'intervals', 'charge', 'adducts')


def check_case(case) -> Result:
    import peptacular as pt
    r = Result()
    pep = case['pep']
    mono, ion, iso = case['mono'], case['ion'], case['isotope']
    s = model.write_pep(pep)
    charge = case['charge_arg'] if case['charge_arg'] is not None else pep['charge']
    adducts = case['adducts_arg'] if case['adducts_arg'] is not None else pep['adducts']
    mods = refmass.all_mods(pep)
    kinds = [refmods.resolve(t) for t, _m in mods]
    bearing = any(k['comp'] is not None and k['kind'] != 'tag' for k in kinds)
    shift = any(k['comp'] is None for k in kinds)
    r.nontrivial = (bearing and shift) or (ion not in ('p', 'n') and charge not in (1, None)) or adducts is not None or not mono
    r.classes = [f'ion={ion}', f'mono={mono}'] + (['bearing+shift'] if bearing and shift else []) + \
        (['adducts'] if adducts is not None else []) + (['labels'] if pep['isotope'] else []) + (['static'] if pep['static'] else []) + \
        (['labile'] if pep['labile'] else []) + (['interval-mods'] if any(iv[3] for iv in pep['intervals']) else []) + \
        (['unknown'] if pep['unknown'] else []) + (['neg-charge'] if charge is not None and charge < 0 else []) + \
        (['isotope-offset'] if iso else []) + (['decorated'] if any('|' in t or '#' in t for t, _m in mods) else [])
    kw = dict(ion_type=ion, isotope=iso)
    if case['charge_arg'] is not None:
        kw['charge'] = case['charge_arg']
    if case['adducts_arg'] is not None:
        kw['charge_adducts'] = case['adducts_arg']
    ctx = dict(sequence=s, args=dict(kw), mono=mono)
    m = pt.mass(s, monoisotopic=mono, **kw)
    c, d = pt.comp_mass(s, **kw)
    # every tabulated average mass carries its own rounding: 1e-3 + 5 ppm per table entry used (a glycan uses one entry per unit)
    tab = [(k, mm) for k, (_t, mm) in zip(kinds, mods) if k['kind'] in ('unimod', 'psimod', 'glycan')]
    n_tab = sum(abs(mm) * k.get('units', 1) for k, mm in tab)
    tol = 1e-4 if mono else 1e-3 * max(1, n_tab) + 5e-6 * sum(abs(k['mono'] * mm) for k, mm in tab)
    w = refchem.comp_mass(c, mono) + d
    if abs(m - w) > tol:
        sig = f'C03/mass-vs-composition/{"mono" if mono else "average"}'
        el = refchem.ELECTRON
        k = (m - w) / el
        dh = refchem.atom_mass('H', False) - refchem.atom_mass('H', True)
        c0 = charge or 0
        if not mono and adducts is None and any(kk and abs(m - w + kk * dh) <= tol for kk in (c0, c0 - 1, c0 + 1)):
            # average mode: the mass calculator weighs a charge carrier as a proton, the composition lists it as H and -1 e, and
            # average hydrogen is 1.15e-4 heavier than 1H (fragment ion types carry one such hydrogen of their own, so the count is the
            # charge or one off); alone inside the allowance, together with a rounded table mass not always
            sig = 'C03/average/charge-carriers-weighed-as-protons-on-top-of-table-rounding'
        elif adducts is not None and abs(m - w - (refmass.adduct_mass_library_quirk(adducts, mono) - refmass.adduct_mass(adducts, mono))) <= tol:
            sig = 'C03/adduct-electrons-not-multiplied-by-ion-count'
        elif abs(k - round(k)) < 0.02 and round(k) != 0 and abs(k) <= 4 and mono:
            sig = f'C03/electron-count/{ion}'
        elif any(t.split('#')[0].lstrip('+-').isdigit() and '#' in t and not t.startswith('#') for t, _mm in mods):
            sig = 'C03/tagged-integer-read-as-accession-by-composition'
        r.fail('mass == mass(composition) + residual shift', sig, mass=m, composition=c, delta=d, composition_mass=w, diff=m - w, **ctx)
    # second weigher
    w2 = pt.chem_mass(c, monoisotopic=mono) + d
    if abs(w2 - w) > 1e-6:
        r.fail('chem_mass of the reported composition equals the reference weight', 'C03/chem_mass-vs-reference', library=w2, reference=w, **ctx)
    # averagine estimation absorbs the residual with the same monoisotopic mass
    c2 = pt.comp(s, estimate_delta=True, **kw)
    w_c = refchem.comp_mass(c, True) + d
    w_c2 = refchem.comp_mass(c2, True)
    if abs(w_c2 - w_c) > 1e-4:
        r.fail('the estimated composition has the same monoisotopic mass', 'C03/estimate-delta', expected=w_c, got=w_c2, **ctx)
    if d == 0:
        c3 = pt.comp(s, **kw)
        if {k: v for k, v in c3.items() if v} != {k: v for k, v in c.items() if v}:
            r.fail('comp == comp_mass composition when there is no residual', 'C03/comp-vs-comp_mass', comp=c3, comp_mass=c, **ctx)
    # annotation input
    a = pt.parse(s)
    c4, d4 = pt.comp_mass(a, **kw)
    if c4 != c or d4 != d:
        r.fail('annotation input gives the same composition as string input', 'C03/annotation-input-differs', **ctx)
    # ... and the two calculators still agree on the same object after the composition calls (the calls are queries)
    pt.comp(a, estimate_delta=True, **kw)
    m_after = pt.mass(a, monoisotopic=mono, **kw)
    if abs(m_after - m) > 1e-9:
        r.fail('mass and composition agree on one annotation object whatever was called before', 'C03/mass-after-comp-calls-differs',
               before=m, after=m_after, annotation_now=a.serialize(), **ctx)
    return r


def check_entry(case) -> Result:
    import peptacular as pt
    r = Result()
    db, idx = case['db'], case['index']
    e = (obo.unimod() if db == 'unimod' else obo.psimod())[idx]
    r.nontrivial = True
    r.classes = [db]
    name = e['name']
    if e['comp'] is None or not gen._bal(name) or '|' in name or '#' in name:
        r.classes.append('skipped')
        r.nontrivial = False
        return r
    pre = 'U:' if db == 'unimod' else 'MOD:'
    sp = pre + (name if db == 'unimod' else e['id'])
    for mono in (True, False):
        if db == 'psimod' and not refmods.psi_self_consistent(e, mono):
            continue
        if not mono and not refmods.chnops_only(e['comp']):
            continue
        for where, s in (('residue', f'PEPT[{sp}]K'), ('static', f'<[{sp}]@T>PEPTK'), ('nterm', f'[{sp}]-PEPTK')):
            if where == 'static' and '@' in name:
                continue
            m = pt.mass(s, monoisotopic=mono)
            c, d = pt.comp_mass(s)
            w = refchem.comp_mass(c, mono) + d
            tol = 1e-4 if mono else 1e-3 + 5e-6 * abs(e['mono'])
            if abs(m - w) > tol:
                r.fail('mass == mass(composition) for every table entry', f'C03/entry/{db}/{where}/{"mono" if mono else "average"}',
                       entry=name, sequence=s, mass=m, composition_mass=w, diff=m - w)
    return r


def check_sugar(case) -> Result:
    """every bundled monosaccharide name and synonym x count 1..4 x residue / static rule / labile x both modes"""
    import peptacular as pt
    r = Result()
    nm, cnt = case['name'], case['count']
    r.nontrivial = True
    r.classes = ['monosaccharide', f'count={cnt}']
    sp = f'Glycan:{nm}{cnt}'
    k = refmods.resolve(sp)
    for mono in (True, False):
        for where, s in (('residue', f'PEPT[{sp}]K'), ('static', f'<[{sp}]@T>PEPTK'), ('labile', '{' + sp + '}PEPTK')):
            if where == 'static' and not nm.isalnum():
                continue
            m = pt.mass(s, monoisotopic=mono)
            c, d = pt.comp_mass(s)
            w = refchem.comp_mass(c, mono) + d
            tol = 1e-4 if mono else cnt * (1e-3 + 5e-6 * abs(k['mono']) / cnt)
            if abs(m - w) > tol:
                r.fail('mass == mass(composition) for every monosaccharide', f'C03/entry/monosaccharide/{where}/{"mono" if mono else "average"}',
                       entry=nm, sequence=s, mass=m, composition_mass=w, diff=m - w)
    return r


def sugar_cases():
    for e in obo.monosaccharides():
        for nm in [e['name']] + list(e['synonyms']):
            for cnt in (1, 2, 3, 4):
                yield {'name': nm, 'count': cnt}


def entry_cases():
    for i in range(len(obo.unimod())):
        yield {'db': 'unimod', 'index': i}
    for i in range(len(obo.psimod())):
        yield {'db': 'psimod', 'index': i}


def strategy():
    kinds = ('num', 'formula', 'unimod', 'glycan', 'psi', 'obs', 'shift')
    one = gen.mass_mod(kinds, chnops=True, decorate=True)
    static_text = gen.mass_mod_text(('num', 'formula', 'unimod', 'glycan', 'psi'), gt_ok=False, chnops=True)
    pm = gen.pep_model(alphabet=gen.AA_MASS, min_len=1, max_len=20, kinds=KINDS, mod_strategy=one,
                       mod_list=st.lists(one, min_size=1, max_size=2), allow_empty=False, static_mod_text=static_text,
                       isotopes=['13C', '15N', '18O', 'D', 'T'], static_max_mult=3)
    add = gen.adduct_text()

    @st.composite
    def strat(draw):
        pep = draw(pm)
        if pep['charge'] is not None:
            pep['charge'] = max(-3, min(4, pep['charge']))
        return {'pep': pep, 'mono': draw(st.booleans()), 'ion': draw(st.sampled_from(IONS + ['p', 'p', 'b', 'y'])),
                'charge_arg': draw(st.one_of(st.none(), st.integers(-3, 4), st.sampled_from([1, 2]))),
                'adducts_arg': draw(st.one_of(st.none(), st.none(), st.none(), add)),
                'isotope': draw(st.sampled_from([0, 0, 1, 2, 3]))}
    return strat()


def parts(tier):
    n = 5000 if tier == 'quick' else 250000
    return [
        Part(name='entries', kind='enum', check_case=check_entry, cases=entry_cases, shards=16, exhaustive=True,
             space='every Unimod entry (average mode: C,H,N,O,P,S compositions) and every self-consistent PSI-MOD row, as residue, static-rule and N-terminal modification'),
        Part(name='monosaccharides', kind='enum', check_case=check_sugar, cases=sugar_cases, shards=8, exhaustive=True,
             space='every bundled monosaccharide name and synonym x count 1..4, as residue, static-rule and labile modification, both modes'),
        Part(name='agreement', kind='hyp', check_case=check_case, strategy=strategy, examples=n),
    ]
