"""C06 - digestion returns exactly the spans the cleavage rules define."""
import itertools

from hypothesis import strategies as st

from pv import refchem
from pv.runner import Part, Result

ID = 'C06'
TITLE = 'Digestion returns exactly the peptides the cleavage rules define'
RULE = ('exhaustive part: every protein over {K,R,P,D,E,A} up to the tier length x every rule set of the fixed list x '
        'missed_cleavages 0..4 x semi, with (min_len, max_len, complete, return type, sort) rotated deterministically; '
        'random part: proteins up to length 60 over all residues, 1-3 rules; non-trivial = at least two internal '
        'cleavage sites and (missed_cleavages >= 1 or semi or an active length bound)')
ASSUMPTIONS = [
    'cleavage sites are recomputed by character logic from (look-behind, look-ahead, negative look-ahead) triples / literal pairs, no regex engine',
    'a consuming match cleaves after its first character (documented: "Using start index + 1 for the match")',
    'sequential digest is compared on (start, end) only: the property does not define the missed-cleavage value of a sequential span',
]

ALPHA6 = 'KRPDEA'
RETURN_TYPES = ['span', 'str', 'annotation', 'str-span', 'annotation-span']
LENS = [None] + list(range(1, 13))


# ---- rule model --------------------------------------------------------------------------------
# rule = ['name', protease] | ['lb', set] | ['la', set] | ['lbneg', set, neg] | ['cg', set] | ['cc', set] | ['lit', 'ab']

def rule_regex(rule):
    k = rule[0]
    if k == 'name':
        return rule[1]
    if k == 'lb':
        return f'(?<=[{rule[1]}])'
    if k == 'la':
        return f'(?=[{rule[1]}])'
    if k == 'lbneg':
        return f'(?<=[{rule[1]}])(?!{rule[2]})'
    if k == 'cg':
        return f'([{rule[1]}])'
    if k == 'cc':
        return f'[{rule[1]}]'
    if k == 'lit':
        return rule[1]
    raise ValueError(rule)


def rule_sites(seq, rule):
    """cleavage sites by character logic; None = non-specific (every position)"""
    k = rule[0]
    n = len(seq)
    if k == 'name':
        if rule[1] == 'non-specific':
            return list(range(n + 1))
        if rule[1] == 'no-cleave':
            return []
        return refchem.sites_from_triple(seq, refchem.PROTEASES[rule[1]])
    if k in ('lb', 'cg', 'cc'):
        return [i for i in range(1, n + 1) if seq[i - 1] in rule[1]]
    if k == 'la':
        return [i for i in range(0, n) if seq[i] in rule[1]]
    if k == 'lbneg':
        return [i for i in range(1, n + 1) if seq[i - 1] in rule[1] and not (i < n and seq[i] == rule[2])]
    if k == 'lit':
        a, b = rule[1]
        return [i for i in range(1, n) if seq[i - 1] == a and seq[i] == b]
    raise ValueError(rule)


def expected_spans(n, S, mc, semi, min_len, max_len, complete, nonspecific):
    lo = 1 if min_len is None else min_len
    hi = n if max_len is None else max_len
    if nonspecific:
        out = {(i, j, 0) for i in range(n) for j in range(i + 1, n + 1) if (i, j) != (0, n) and lo <= j - i <= hi}
    else:
        Sset = set(S)
        E = sorted(Sset | {0, n})
        enz = []
        for a in range(len(E)):
            for b in range(a + 1, min(len(E), a + mc + 2)):
                enz.append((E[a], E[b], b - a - 1))
        spans = set(enz)
        if semi:
            def inside(i, j):
                return sum(1 for s in Sset if i < s < j)
            for i, j, _k in enz:
                for j2 in range(i + 1, j):
                    spans.add((i, j2, inside(i, j2)))
                for i2 in range(i + 1, j):
                    spans.add((i2, j, inside(i2, j)))
        out = {s for s in spans if lo <= s[1] - s[0] <= hi}
    if not complete:
        # partial digestion adds the undigested sequence - a span like any other, reporting the sites it contains (none under the
        # non-specific rule, which reports zero throughout); it is exempt from the length bounds (pinned by the digest() doctest)
        out.add((0, n, 0 if nonspecific else sum(1 for s_ in set(S) if 0 < s_ < n)))
    return out


def check_case(case) -> Result:
    import peptacular as pt
    from peptacular.proforma.proforma_parser import ProFormaAnnotation
    r = Result()
    seq, rules = case['seq'], case['rules']
    mc, semi, mn, mx = case['mc'], case['semi'], case['min_len'], case['max_len']
    complete, rt, srt = case['complete'], case['rt'], case['sort']
    n = len(seq)
    regexes = [rule_regex(x) for x in rules]
    per_rule = [rule_sites(seq, x) for x in rules]
    S = sorted(set(i for ps in per_rule for i in ps))
    nonspecific = any(x == ['name', 'non-specific'] for x in rules)
    all_positions = (len(S) == n + 1) and not nonspecific
    internal_sites = [s for s in S if 0 < s < n]
    active_bound = (mn is not None and mn > 1) or (mx is not None and mx < n)
    r.nontrivial = len(internal_sites) >= 2 and (mc >= 1 or semi or active_bound)
    r.classes = [f'rules={len(rules)}', f'mc={mc}', f'semi={semi}', f'rt={rt}'] + \
        (['nonspecific'] if nonspecific else []) + (['all-positions-are-sites'] if all_positions else []) + \
        (['bound'] if active_bound else []) + (['partial'] if not complete else [])

    # cleavage sites per rule
    for x, rx, ps in zip(rules, regexes, per_rule):
        got = list(pt.get_cleavage_sites(seq, rx))
        if got != ps:
            r.fail('cleavage sites of a rule', f'C06/sites/{x[0]}', seq=seq, rule=rx, expected=ps, got=got)

    exp = expected_spans(n, S, mc, semi, mn, mx, complete, nonspecific)
    rx_arg = regexes[0] if len(regexes) == 1 and case.get('single_as_str') else regexes

    def classify(got_spans, where):
        got_set = set(got_spans)
        tag = ('/semi' if semi else '') + ('/partial' if not complete else '')
        if all_positions and got_set != exp and got_set == expected_spans(n, S, mc, semi, mn, mx, complete, True):
            r.fail('spans are those bounded by termini / cleavage sites with at most mc sites inside',
                   f'C06/{where}/all-positions-are-sites-treated-as-non-specific', seq=seq, rules=regexes, mc=mc, semi=semi,
                   min_len=mn, max_len=mx, complete=complete, expected=sorted(exp)[:40], got=sorted(got_set)[:40])
            return
        if len(got_spans) != len(got_set):
            r.fail('no span twice', f'C06/{where}/duplicates', seq=seq, rules=regexes, mc=mc, semi=semi, got=got_spans[:40])
        ge = {(a, b) for a, b, _ in got_set}
        ee = {(a, b) for a, b, _ in exp}
        if ee - ge:
            r.fail('every defined span is returned', f'C06/{where}/missing-span{tag}', seq=seq, rules=regexes, mc=mc, semi=semi,
                   min_len=mn, max_len=mx, complete=complete, missing=sorted(ee - ge)[:20], got=sorted(got_set)[:40])
        if ge - ee:
            r.fail('nothing else is returned', f'C06/{where}/spurious-span{tag}', seq=seq, rules=regexes, mc=mc, semi=semi,
                   min_len=mn, max_len=mx, complete=complete, spurious=sorted(ge - ee)[:20], got=sorted(got_set)[:40])
        if ge == ee and got_set != exp:
            r.fail('each span reports the number of cleavage sites it contains', f'C06/{where}/wrong-site-count{tag}', seq=seq,
                   rules=regexes, mc=mc, semi=semi, expected=sorted(exp - got_set)[:20], got=sorted(got_set - exp)[:20])
        if srt and list(got_spans) != sorted(got_spans, key=lambda x: (x[0], x[1], x[2])):
            r.fail('sorted output', f'C06/{where}/unsorted', seq=seq, rules=regexes, got=got_spans[:40])

    kw = dict(missed_cleavages=mc, semi=semi, min_len=mn, max_len=mx, complete_digestion=complete, sort_output=srt)
    spans = [tuple(x) for x in pt.digest(seq, rx_arg, return_type='span', **kw)]
    classify(spans, 'digest')

    # the requested return type is a projection of the same spans
    if rt != 'span':
        out = list(pt.digest(seq, rx_arg, return_type=rt, **kw))
        ok = len(out) == len(spans)
        if ok and srt:
            for o, sp in zip(out, spans):
                if rt == 'str':
                    ok = ok and o == seq[sp[0]:sp[1]]
                elif rt == 'annotation':
                    ok = ok and isinstance(o, ProFormaAnnotation) and o.sequence == seq[sp[0]:sp[1]] and not o.has_mods()
                elif rt == 'str-span':
                    ok = ok and o[0] == seq[sp[0]:sp[1]] and tuple(o[1]) == sp
                elif rt == 'annotation-span':
                    ok = ok and isinstance(o[0], ProFormaAnnotation) and o[0].sequence == seq[sp[0]:sp[1]] and tuple(o[1]) == sp
        elif ok:
            # unsorted set order is the same within one process for equal sets, but do not rely on it
            def key(o):
                if rt == 'str':
                    return o
                if rt == 'annotation':
                    return o.sequence
                if rt == 'str-span':
                    return (o[0], tuple(o[1]))
                return (o[0].sequence, tuple(o[1]))
            exp_keys = sorted(repr(seq[a:b] if rt in ('str', 'annotation') else (seq[a:b], (a, b, c))) for a, b, c in spans)
            ok = sorted(repr(key(o)) for o in out) == exp_keys
        if not ok:
            r.fail('all return types describe the same spans', f'C06/return-type/{rt}', seq=seq, rules=regexes, mc=mc, semi=semi,
                   spans=spans[:30], got=[str(o) for o in out[:30]])

    # digest_from_config == digest
    if mc == 0 and not semi and complete:
        # the configuration object's defaults are the defaults of digest(): zero missed cleavages, specific, complete
        d_cfg = list(pt.digest_from_config(seq, pt.EnzymeConfig(regex=list(regexes)), min_len=mn, max_len=mx, return_type='span'))
        d_fun = list(pt.digest(seq, list(regexes), min_len=mn, max_len=mx, return_type='span'))
        if d_cfg != d_fun:
            r.fail('digest_from_config is digest() with the configuration spelled out', 'C06/config-defaults-differ', seq=seq, rules=regexes,
                   config=d_cfg[:20], function=d_fun[:20])
    cfg = pt.EnzymeConfig(regex=list(regexes), missed_cleavages=mc, semi_enzymatic=semi, complete_digestion=complete)
    got = [tuple(x) for x in pt.digest_from_config(seq, cfg, min_len=mn, max_len=mx, return_type='span', sort_output=srt)]
    if sorted(got) != sorted(spans):
        r.fail('digest_from_config equals digest', 'C06/config/differs', seq=seq, rules=regexes, mc=mc, semi=semi,
               digest=spans[:30], config=got[:30])

    # sequential digest with complete zero-missed stages == simultaneous digest with all rules
    if case.get('sequential') and not nonspecific:
        cfgs = [pt.EnzymeConfig(regex=[rx], missed_cleavages=0, semi_enzymatic=False, complete_digestion=True) for rx in regexes]
        got = [tuple(x) for x in pt.sequential_digest(seq, cfgs, min_len=mn, max_len=mx, return_type='span')]
        sim = expected_spans(n, S, 0, False, mn, mx, True, False)
        ge = sorted((a, b) for a, b, _ in got)
        ee = sorted((a, b) for a, b, _ in sim)
        if ge != ee:
            per_all = any(len(set(ps)) == n + 1 for ps in per_rule) or all_positions or \
                any(len(set(rule_sites(seq[a:b], x))) == (b - a) + 1 for x in rules for a, b in ee + ge if b > a)
            sig = 'C06/sequential/all-positions-are-sites-treated-as-non-specific' if per_all else 'C06/sequential/differs'
            r.fail('sequential complete zero-missed digest equals the simultaneous digest', sig, seq=seq, rules=regexes,
                   min_len=mn, max_len=mx, expected=ee[:30], got=ge[:30])
    return r


def check_build_spans(case) -> Result:
    """build_spans and the semi / non-enzymatic span builders called directly with explicit site lists"""
    import peptacular as pt
    r = Result()
    n, S, mc, semi, mn, mx = case['n'], case['sites'], case['mc'], case['semi'], case['min_len'], case['max_len']
    all_positions = len(set(S)) == n + 1
    exp = expected_spans(n, S, mc, semi, mn, mx, True, False)
    got = [tuple(x) for x in pt.build_spans(n, list(S), mc, mn, mx, semi)]
    internal = [s for s in set(S) if 0 < s < n]
    r.nontrivial = len(internal) >= 2 and (mc >= 1 or semi)
    r.classes = [f'semi={semi}'] + (['all-positions'] if all_positions else [])
    if all_positions:
        expns = expected_spans(n, S, mc, semi, mn, mx, True, True)
        if set(got) != exp and set(got) == expns:
            r.fail('build_spans', 'C06/build_spans/all-positions-are-sites-treated-as-non-specific', n=n, sites=S, mc=mc, semi=semi,
                   min_len=mn, max_len=mx, expected=sorted(exp)[:30], got=sorted(got)[:30])
            return r
    if set(got) != exp:
        r.fail('build_spans returns the defined spans', 'C06/build_spans/wrong' + ('/semi' if semi else ''), n=n, sites=S, mc=mc,
               semi=semi, min_len=mn, max_len=mx, missing=sorted(exp - set(got))[:20], spurious=sorted(set(got) - exp)[:20])
    if not semi and len(got) != len(set(got)):
        r.fail('no span twice', 'C06/build_spans/duplicates', n=n, sites=S, mc=mc, got=got[:30])
    # direct builders on one span
    a, b = case['span']
    lo = 1 if mn is None else mn
    left = {(a, j, 7) for j in range(a + 1, b) if lo <= j - a <= (b - a if mx is None else mx)}
    right = {(i, b, 7) for i in range(a + 1, b) if lo <= b - i <= (b - a if mx is None else mx)}
    non = {(i, j, 0) for i in range(a, b) for j in range(i + 1, b + 1) if (i, j) != (a, b) and lo <= j - i <= (b - a - 1 if mx is None else mx)}
    gl = [tuple(x) for x in pt.build_left_semi_spans((a, b, 7), mn, mx)]
    gr = [tuple(x) for x in pt.build_right_semi_spans((a, b, 7), mn, mx)]
    gn = [tuple(x) for x in pt.build_non_enzymatic_spans((a, b, 7), mn, mx)]
    if set(gl) != left or len(gl) != len(set(gl)):
        r.fail('left semi spans share the start and are proper prefixes', 'C06/build_left_semi_spans/wrong', span=[a, b], min_len=mn,
               max_len=mx, expected=sorted(left), got=gl)
    if set(gr) != right or len(gr) != len(set(gr)):
        r.fail('right semi spans share the end and are proper suffixes', 'C06/build_right_semi_spans/wrong', span=[a, b], min_len=mn,
               max_len=mx, expected=sorted(right), got=gr)
    if set(gn) != non or len(gn) != len(set(gn)):
        r.fail('non-enzymatic spans are all proper sub-spans', 'C06/build_non_enzymatic_spans/wrong', span=[a, b], min_len=mn,
               max_len=mx, expected=sorted(non)[:30], got=gn[:30])
    return r


# ---- enumeration -------------------------------------------------------------------------------

def rule_sets():
    named = [[['name', k]] for k in sorted(refchem.PROTEASES)] + [[['name', 'non-specific']], [['name', 'no-cleave']]]
    user = [
        [['lb', 'KR']], [['la', 'D']], [['lbneg', 'KR', 'P']], [['cg', 'KR']], [['cc', 'K']], [['lit', 'KP']], [['lit', 'KK']],
        [['cg', 'KR'], ['cg', 'D']], [['lb', 'K'], ['la', 'K']], [['name', 'lys-n'], ['name', 'lys-c']],
        [['name', 'trypsin/P'], ['name', 'lys-n']], [['name', 'trypsin'], ['name', 'asp-n'], ['name', 'glu-c']],
        [['lit', 'KP'], ['la', 'E'], ['cc', 'R']], [['lb', 'KRPDEA']], [['la', 'KRPDEA']], [['name', 'non-specific'], ['lb', 'K']],
        [['lbneg', 'DE', 'A'], ['lit', 'PP']], [['lb', 'K'], ['name', 'non-specific']], [['name', 'lys-c'], ['la', 'D'], ['name', 'non-specific']],
        [['name', 'no-cleave'], ['name', 'trypsin']],
    ]
    return named + user


def enum_cases(maxlen):
    rs = rule_sets()

    def gen(shard, nshards):
        idx = 0
        for n in range(0, maxlen + 1):
            for t in itertools.product(ALPHA6, repeat=n):
                seq = ''.join(t)
                for ri, rules in enumerate(rs):
                    idx += 1
                    if idx % nshards != shard:
                        continue
                    for mc in range(5):
                        for semi in (False, True):
                            # rotate the remaining options deterministically (co-prime strides)
                            c = idx * 10 + mc * 2 + semi
                            yield {'seq': seq, 'rules': rules, 'mc': mc, 'semi': semi,
                                   'min_len': LENS[(c * 7) % 13], 'max_len': LENS[(c * 5 + 3) % 13],
                                   'complete': (c // 3) % 4 != 0, 'rt': RETURN_TYPES[c % 5], 'sort': (c // 5) % 3 != 0,
                                   'single_as_str': c % 2 == 0, 'sequential': mc == 0 and not semi}
    return gen


def random_strategy():
    letters = refchem.ALL_LETTERS
    sset = st.lists(st.sampled_from(letters), min_size=1, max_size=4, unique=True).map(lambda x: ''.join(sorted(x)))
    rule = st.one_of(
        st.sampled_from(sorted(refchem.PROTEASES)).map(lambda k: ['name', k]),
        st.sampled_from(sorted(refchem.PROTEASES)).map(lambda k: ['name', k]),
        st.sampled_from(sorted(refchem.PROTEASES) * 6 + ['non-specific', 'no-cleave']).map(lambda k: ['name', k]),
        sset.map(lambda s: ['lb', s]), sset.map(lambda s: ['la', s]),
        st.tuples(sset, st.sampled_from(letters)).map(lambda t: ['lbneg', t[0], t[1]]),
        sset.map(lambda s: ['cg', s]), sset.map(lambda s: ['cc', s]),
        st.tuples(st.sampled_from(letters), st.sampled_from(letters)).map(lambda t: ['lit', t[0] + t[1]]),
    )
    # proteins rich in the letters the rules care about
    seq = st.one_of(st.text(letters, max_size=60), st.text('KRPDEAFLM', max_size=60), st.text('KRP', max_size=30))
    ln = st.sampled_from(LENS)
    return st.fixed_dictionaries({
        'seq': seq, 'rules': st.lists(rule, min_size=1, max_size=3), 'mc': st.integers(0, 4), 'semi': st.booleans(),
        'min_len': ln, 'max_len': ln, 'complete': st.booleans(), 'rt': st.sampled_from(RETURN_TYPES), 'sort': st.booleans(),
        'single_as_str': st.booleans(), 'sequential': st.booleans()})


def build_spans_strategy():
    @st.composite
    def strat(draw):
        n = draw(st.integers(0, 14))
        sites = draw(st.lists(st.integers(0, n), max_size=8))
        a = draw(st.integers(0, 10))
        b = a + draw(st.integers(0, 8))
        return {'n': n, 'sites': sites, 'mc': draw(st.integers(0, 4)), 'semi': draw(st.booleans()),
                'min_len': draw(st.sampled_from(LENS)), 'max_len': draw(st.sampled_from(LENS)), 'span': [a, b]}
    return strat()


def parts(tier):
    maxlen = 5 if tier == 'quick' else 7
    n = 6000 if tier == 'quick' else 200000
    return [
        Part(name='digest-exhaustive', kind='enum', check_case=check_case, cases=enum_cases(maxlen), sharded=True, exhaustive=True,
             distinct_by_construction=True, shards=16,
             space=f'every protein over {{K,R,P,D,E,A}} of length 0..{maxlen} x {len(rule_sets())} rule sets x missed_cleavages 0..4 x semi '
                   f'(min_len, max_len, complete_digestion, return type, sort_output rotated deterministically)'),
        Part(name='digest-random', kind='hyp', check_case=check_case, strategy=random_strategy, examples=n),
        Part(name='span-builders', kind='hyp', check_case=check_build_spans, strategy=build_spans_strategy, examples=n),
    ]
