"""C14 - isotopic distributions are normalised, centred on the right masses and complete."""
import itertools
import math
from functools import lru_cache

from hypothesis import strategies as st

from pv import refchem
from pv.runner import Part, Result

ID = 'C14'
TITLE = 'Isotopic distributions are normalised, centred on the right masses and complete'
RULE = ('random part: composition over C,H,N,O,S,P (+Se,Cl,Br,Fe) with integer or fractional counts, optional e/p/n and '
        'isotope-labelled keys (neutron view always compared with the binned mass view for those) x pruning/normalisation/resolution options; exhaustive part: every composition over '
        'C,H,N,O,S,P with at most 12 atoms compared with an exact multinomial expansion; non-trivial = >= 2 elements and '
        '>= 10 atoms, or a particle entry, or a fractional count; estimate part: neutral mass 30..1500 (4000 thorough) x the same options, '
        'non-trivial = mass >= 200')
ASSUMPTIONS = [
    'reference isotope masses and abundances: pv/refchem.py literals (cross-checked against chem.txt by C02)',
    'lightest-peak and mean clauses: mass view, no pruning option set, elements whose lightest isotope is the most abundant (C,H,N,O,S,P) for the lightest-peak clause',
    'estimate part: averagine ratios C4.9384 H7.7583 N1.3577 O1.4773 S0.0417 (Senko 1995) scaled so that the MONOISOTOPIC mass equals neutral_mass (the library docstring and ISOTOPIC_AVERAGINE_MASS say so)',
    'tolerances: lightest peak half a unit of the resolution (beyond it: the recorded per-element rounding, matched exactly for whole-number compositions); the mean clause keeps (#elements+1)*10^-resolution for that same rounding; mean 1e-4 + 1e-5*atoms + (#elements+1)*10^-resolution (the library prunes per-element terms below 1e-8, which biases the mean by up to ~5e-6 per atom; no allowance for fractional counts); neutron view vs binned mass view 1e-5 absolute on sum-normalised abundances up to 40 atoms, growing in proportion to the atom count beyond (the same pruning removes more terms from the mass view, which has more distinct keys); exact expansion 1e-6 absolute on sum-normalised abundances',
]

LIGHT = ['C', 'H', 'N', 'O', 'S', 'P']
HEAVY = ['Se', 'Cl', 'Br', 'Fe']


def _norm_ok(dist, abundance, is_sum):
    if not dist:
        return True
    v = sum(a for _m, a in dist) if is_sum else max(a for _m, a in dist)
    return abs(v - abundance) <= 1e-9 * max(1.0, abundance)


_PRUNED = {}


def _pruning_bias(el, n):
    """mean shift caused by dropping every product term below 1e-8 during the n-fold self-convolution of one element's isotope
    pattern (the documented per-element pruning), computed from the reference isotope table"""
    rows = [(m, ab) for _a, m, ab in refchem.table()[el] if ab > 0]
    steps = _PRUNED.setdefault(el, [{0.0: 1.0}])
    while len(steps) <= n:
        nd = {}
        for m1, a1 in steps[-1].items():
            for m2, a2 in rows:
                a = a1 * a2
                if a >= 1e-8:
                    k = m1 + m2
                    nd[k] = nd.get(k, 0.0) + a
        steps.append(nd)
    dist = steps[int(n)]
    tot = sum(dist.values())
    return sum(m * a for m, a in dist.items()) / tot - n * refchem.atom_mass(el, False)


MEAN_BASE, MEAN_PER_ATOM = 1e-4, 1e-5


def _rounded_per_element(comp, got, res, ne):
    """is `got` the lightest mass one gets by rounding to the resolution after every element block is added (instead of once at the
    end)?  Exact for whole-number compositions without particles; with fractional counts or particles (added to the finished
    pattern, unrounded) the accumulated bound of half a unit per element is used"""
    items = [(k, v) for k, v in comp.items() if v != 0]
    plain = all(k not in ('e', 'p', 'n') and v == int(v) for k, v in items)
    if plain:
        a = b = 0.0
        for k, v in items:
            blk = refchem.atom_mass(k, True) * v
            a = round(a + round(blk, res), res)
            b = round(b + blk, res)
        return abs(got - a) <= 1e-9 or abs(got - b) <= 1e-9
    return abs(got - refchem.comp_mass(dict(items), True)) <= ne * 0.5 * 10 ** (-res) + 1e-9


def _explain_mean(comp, d, tol):
    """is d (mean - average mass) the amount that follows from the two recorded causes?  (1) the fractional part of every count is
    weighed at its monoisotopic instead of its average mass (either neighbour is accepted as the rounded count of a count ending in
    .5); (2) the per-element pruning of the pattern of the rounded composition, modelled on the reference isotope table.
    Returns the signature of the larger contribution, or None"""
    items = [(k, v) for k, v in comp.items() if k not in ('e', 'p', 'n') and v != 0]
    opts = []
    for k, v in items:
        lo, hi = math.floor(v), math.ceil(v)
        opts.append([lo] if v - lo < 0.5 - 1e-9 else [hi] if hi - v < 0.5 - 1e-9 else [lo, hi])
    single = lambda k: k[0].isdigit() or k in ('D', 'T')  # noqa  (one isotope: nothing to prune, average = monoisotopic)
    modelled = all(k in LIGHT or k in HEAVY or single(k) for k, _v in items)
    for choice in itertools.product(*opts):
        fshift = sum(-(v - c) * (refchem.atom_mass(k, False) - refchem.atom_mass(k, True)) for (k, v), c in zip(items, choice))
        if fshift != 0 and abs(d - fshift) <= tol:
            return 'C14/mean/fractional-part-weighed-at-monoisotopic-mass'
        if modelled:
            bias = sum(_pruning_bias(k, int(c)) for (k, _v), c in zip(items, choice) if not single(k))
            if abs(d - fshift - bias) <= tol + 0.02 * abs(bias):
                return 'C14/mean/fractional-part-weighed-at-monoisotopic-mass' if abs(fshift) > abs(bias) else \
                    'C14/mean/per-element-pruning-drops-abundance-of-many-isotope-elements'
    return None


def _exact(comp, neutron=False):
    """exact expansion: dict key -> abundance; key = integer neutron offset (relative to the most abundant isotopes) or mass"""
    dist = {0: 1.0}
    for el, n in comp.items():
        rows = refchem.table()[el] if not el[0].isdigit() and el not in ('D', 'T', 'e', 'p', 'n') else None
        if rows is None:
            m = refchem.atom_mass(el)
            nd = {}
            for k, a in dist.items():
                kk = k + (0 if neutron else m * n)
                nd[kk] = nd.get(kk, 0.0) + a
            dist = nd
            continue
        rows = [(a, m, ab) for a, m, ab in rows if ab > 0]
        base = max(rows, key=lambda r: r[2])[0]
        for _ in range(n):
            nd = {}
            for k, a in dist.items():
                for aa, m, ab in rows:
                    kk = k + ((aa - base) if neutron else m)
                    nd[kk] = nd.get(kk, 0.0) + a * ab
            dist = nd
    return dist


def check_case(case) -> Result:
    import peptacular as pt
    r = Result()
    comp = {k: v for k, v in case['comp']}
    o = case['opts']
    elements = [k for k, v in comp.items() if k not in ('e', 'p', 'n') and v != 0]
    atoms = sum(v for k, v in comp.items() if k not in ('e', 'p', 'n'))
    particles = any(k in ('e', 'p', 'n') and v != 0 for k, v in comp.items())
    frac = any(isinstance(v, float) and v != int(v) for k, v in comp.items() if k not in ('e', 'p', 'n'))
    int_formula = all(isinstance(v, int) for k, v in comp.items() if k not in ('e', 'p', 'n') and v != 0)
    r.nontrivial = (len(elements) >= 2 and atoms >= 10) or particles or frac
    no_prune = o['max_isotopes'] is None and o['min_abundance'] is None
    r.classes = (['no-pruning'] if no_prune else ['pruned']) + (['particles'] if particles else []) + (['fractional'] if frac else []) + \
        (['neutron-view'] if o['neutron'] else ['mass-view']) + (['sum-normalised'] if o['is_sum'] else ['max-normalised']) + \
        (['heavy-element'] if any(e in HEAVY for e in elements) else []) + (['labelled'] if any(e[0].isdigit() or e in 'DT' for e in elements) else []) + \
        [f'res={o["resolution"]}']
    kw = dict(max_isotopes=o['max_isotopes'], min_abundance_threshold=o['min_abundance'], distribution_resolution=o['resolution'],
              use_neutron_count=o['neutron'], distribution_abundance=o['abundance'], is_abundance_sum=o['is_sum'],
              output_masses_for_neutron_offset=o['out_masses'])
    ctx = dict(composition=comp, options=o)
    dist = pt.isotopic_distribution(dict(comp), **kw)
    if not isinstance(dist, list) or not all(isinstance(x, tuple) and len(x) == 2 for x in dist):
        r.fail('returns a list of (mass, abundance)', 'C14/type', got=str(dist)[:200], **ctx)
        return r
    if not dist:
        if elements or True:
            r.fail('a pattern has at least one peak', 'C14/empty-pattern', **ctx)
        return r
    masses = [m for m, _a in dist]
    if masses != sorted(masses):
        r.fail('sorted by mass', 'C14/unsorted', masses=masses[:20], **ctx)
    if len(set(masses)) != len(masses):
        r.fail('one peak per mass', 'C14/duplicate-mass', masses=masses[:20], **ctx)
    if not _norm_ok(dist, o['abundance'], o['is_sum']):
        r.fail('largest peak (or total) equals the requested abundance', 'C14/normalisation/' + ('sum' if o['is_sum'] else 'max'),
               got=(sum(a for _m, a in dist) if o['is_sum'] else max(a for _m, a in dist)), **ctx)
    if any(a < 0 for _m, a in dist):
        r.fail('abundances are non-negative', 'C14/negative-abundance', **ctx)
    if o['min_abundance'] and not o['is_sum']:
        if any(a / o['abundance'] < o['min_abundance'] * (1 - 1e-9) for _m, a in dist):
            r.fail('peaks below the threshold are removed', 'C14/threshold-not-applied', **ctx)
    if o['max_isotopes'] is not None and len(dist) > o['max_isotopes']:
        r.fail('at most max_isotopes peaks', 'C14/max-isotopes-exceeded', got=len(dist), **ctx)

    # a reporting threshold only removes peaks: what is left is the unthresholded pattern without the peaks below the threshold
    # (relative to the largest peak), peak for peak
    if o['min_abundance'] and o['max_isotopes'] is None and elements:
        kw0 = dict(kw, min_abundance_threshold=None, distribution_abundance=1.0, is_abundance_sum=False)
        full = pt.isotopic_distribution(dict(comp), **kw0)
        t = o['min_abundance']
        top_t = max(a for _m, a in dist)
        got_t = {m: a / top_t for m, a in dist}
        exp_t = {m: a for m, a in full if a >= t}
        near = {m for m, a in full if abs(a - t) <= 1e-6 * t + 1e-12}
        bad = [m for m in set(got_t) | set(exp_t) if m not in near and abs(got_t.get(m, 0.0) - exp_t.get(m, 0.0)) > 1e-9]
        if bad:
            r.fail('with a reporting threshold the pattern is the full pattern without the peaks below the threshold', 'C14/threshold/pattern-differs-from-filtered-full-pattern',
                   masses=sorted(bad)[:8], got=[got_t.get(m) for m in sorted(bad)[:8]], expected=[exp_t.get(m) for m in sorted(bad)[:8]], **ctx)

    res = o['resolution']
    ne = len(elements) + 1
    part_off = sum(refchem.atom_mass(k) * v for k, v in comp.items() if k in ('e', 'p', 'n'))
    if no_prune and not o['neutron'] and elements:
        light_only = all(e in LIGHT or e[0].isdigit() or e in 'DT' for e in elements)
        mono = refchem.comp_mass({k: v for k, v in comp.items() if v != 0}, True)
        if light_only:
            d = dist[0][0] - mono
            half = 0.5 * 10 ** (-res) + 1e-9
            if abs(d) > half:
                if particles and int_formula and abs(part_off) > 2 * half and abs(d + part_off) <= half:
                    sig = 'C14/lightest-peak/particle-offset-ignored-for-integer-formula'
                elif _rounded_per_element(comp, dist[0][0], res, ne):
                    # the masses are rounded to the resolution after every element is folded in, not once at the end
                    sig = 'C14/lightest-peak/masses-rounded-after-every-element'
                else:
                    sig = 'C14/lightest-peak/wrong'
                r.fail('lightest peak sits at the monoisotopic mass incl. listed electrons, protons, neutrons (rounded to the resolution)', sig,
                       expected=mono, got=dist[0][0], resolution=res, **ctx)
        avg = refchem.comp_mass({k: v for k, v in comp.items() if v != 0}, False)
        tot = sum(a for _m, a in dist)
        mean = sum(m * a for m, a in dist) / tot
        tol = MEAN_BASE + MEAN_PER_ATOM * atoms + ne * 10 ** (-res)
        d = mean - avg
        if abs(d) > tol:
            if particles and int_formula and abs(d + part_off) <= tol:
                sig = 'C14/mean/particle-offset-ignored-for-integer-formula'
            elif _explain_mean(comp, d, ne * 10 ** (-res) + 1e-4):
                # the library computes the pattern of the composition rounded to whole atoms and shifts it by the MONOISOTOPIC mass of
                # the rounded-off part, so the mean misses the average mass by (count - rounded count) * (average - monoisotopic);
                # every product below 1e-8 is dropped inside the per-element expansion (it cannot be switched off); for elements
                # with many abundant isotopes most of the expansion consists of such terms and the mean drifts
                sig = _explain_mean(comp, d, ne * 10 ** (-res) + 1e-4)
            else:
                sig = 'C14/mean/wrong'
            r.fail('abundance-weighted mean equals the average mass', sig, expected=avg, got=mean, tol=tol, **ctx)

    # neutron-offset view == mass view binned by nominal mass
    labelled = any(e[0].isdigit() or e in 'DT' for e in elements)
    if (case['compare_views'] or labelled) and elements and all(e in LIGHT or e[0].isdigit() or e in 'DT' for e in elements):
        kw2 = dict(distribution_resolution=max(res, 3), distribution_abundance=1.0, is_abundance_sum=True)
        mv = pt.isotopic_distribution(dict(comp), use_neutron_count=False, **kw2)
        nv = pt.isotopic_distribution(dict(comp), use_neutron_count=True, **kw2)
        m0 = mv[0][0]
        bins = {}
        for m, a in mv:
            k = int(round(m - m0))
            bins[k] = bins.get(k, 0.0) + a
        nd = dict(nv)
        vtol = 1e-5 * max(1.0, atoms / 40)
        bad = [k for k in set(bins) | set(nd) if abs(bins.get(k, 0.0) - nd.get(k, 0.0)) > vtol]
        if bad:
            r.fail('the neutron-offset view is the mass view binned by nominal mass', 'C14/neutron-view-vs-mass-view',
                   offsets=sorted(bad)[:10], mass_bins={k: bins.get(k) for k in sorted(bad)[:10]},
                   neutron={k: nd.get(k) for k in sorted(bad)[:10]}, **ctx)
        # documented masses for neutron offsets: formula mass + offset * neutron mass
        if not particles and int_formula:
            nm = pt.isotopic_distribution(dict(comp), use_neutron_count=True, output_masses_for_neutron_offset=True, **kw2)
            fm = refchem.comp_mass(comp, True)
            for (k, a), (m, a2) in zip(nv, nm):
                if abs(m - (fm + k * refchem.NEUTRON)) > 1e-6 or abs(a - a2) > 1e-12:
                    r.fail('masses for neutron offsets are formula mass + offset * neutron mass', 'C14/neutron-offset-masses', offset=k,
                           got=m, expected=fm + k * refchem.NEUTRON, **ctx)
                    break
    # the same view with listed particles or fractional counts: the lightest peak still sits at the monoisotopic mass of the
    # composition (particles included) and the peaks are one neutron mass apart
    if case['compare_views'] and elements and (particles or frac) and all(e in LIGHT for e in elements):
        import warnings
        with warnings.catch_warnings():
            warnings.simplefilter('ignore')
            nm = pt.isotopic_distribution(dict(comp), use_neutron_count=True, output_masses_for_neutron_offset=True,
                                          distribution_resolution=max(res, 3))
            no = pt.isotopic_distribution(dict(comp), use_neutron_count=True, distribution_resolution=max(res, 3))
        mono = refchem.comp_mass({k: v for k, v in comp.items() if v != 0}, True)
        if nm and len(nm) == len(no):
            d0 = nm[0][0] - mono
            spacing_ok = all(abs((nm[i][0] - nm[0][0]) - (no[i][0] - no[0][0]) * refchem.NEUTRON) <= 1e-6 for i in range(len(nm)))
            if abs(d0) > 1e-6 or not spacing_ok:
                # library: formula_mass + (offset + correction) * neutron_mass, where correction = particle offset + (mass of the
                # fractional formula - mass of the formula rounded to integers): the correction is scaled by the neutron mass
                sig = 'C14/neutron-offset-masses/wrong'
                if spacing_ok:
                    fr = [(k, v) for k, v in comp.items() if k not in ('e', 'p', 'n') and v != int(v)]
                    for choice in itertools.product(*[(math.floor(v), math.ceil(v)) for _k, v in fr]):
                        corr = part_off + sum((v - c) * refchem.atom_mass(k, True) for (k, v), c in zip(fr, choice))
                        if abs(d0 - (refchem.NEUTRON - 1) * corr) <= 1e-6:
                            sig = 'C14/neutron-offset-masses/particle-and-fraction-correction-scaled-by-neutron-mass'
                            break
                r.fail('with masses for neutron offsets the lightest peak sits at the monoisotopic mass (particles included), peaks one neutron apart',
                       sig, lightest=nm[0][0], expected=mono, diff=d0, **ctx)
    return r


def check_exact(case) -> Result:
    """compositions with at most 12 atoms: compare with an exact multinomial expansion"""
    import peptacular as pt
    r = Result()
    comp = {k: v for k, v in case['comp'] if v}
    r.nontrivial = len(comp) >= 2
    r.classes = [f'atoms={sum(v for k, v in comp.items() if k not in ("e", "p", "n"))}']
    ctx = dict(composition=comp)
    if not comp:
        return r
    ex_n = _exact(comp, neutron=True)
    tot = sum(ex_n.values())
    nv = dict(pt.isotopic_distribution(dict(comp), use_neutron_count=True, is_abundance_sum=True, distribution_resolution=6))
    for k, a in ex_n.items():
        a /= tot
        if a > 1e-6 and abs(nv.get(k, 0.0) - a) > 1e-6:
            r.fail('peaks match an exact multinomial expansion', 'C14/exact/neutron-view', offset=k, expected=a, got=nv.get(k), **ctx)
            break
    ex_raw = _exact(comp, neutron=False)
    ex_m = {}
    for m, a in ex_raw.items():  # the same isotope combination reached in different orders differs by float noise
        ex_m[round(m, 8)] = ex_m.get(round(m, 8), 0.0) + a
    mv = pt.isotopic_distribution(dict(comp), is_abundance_sum=True, distribution_resolution=6)
    lib = sorted(mv)
    ref = sorted((m, a / tot) for m, a in ex_m.items())
    # every significant reference peak has a library peak within rounding distance carrying that abundance (after merging close peaks)
    tolm = (len(comp) + 1) * 1e-6
    for m, a in ref:
        if a <= 1e-6:
            continue
        near_lib = sum(x[1] for x in lib if abs(x[0] - m) <= tolm)
        near_ref = sum(x[1] for x in ref if abs(x[0] - m) <= 2 * tolm)
        if not (a - 1e-6 <= near_lib <= near_ref + 1e-6):
            r.fail('peaks match an exact multinomial expansion', 'C14/exact/mass-view', mass=m, expected=a, got=near_lib, **ctx)
            break
    if abs(lib[0][0] - min(ex_m)) > tolm:
        r.fail('lightest peak sits at the monoisotopic mass', 'C14/exact/lightest', expected=min(ex_m), got=lib[0][0], **ctx)
    return r


def check_merge(case) -> Result:
    import peptacular as pt
    r = Result()
    ds = [[tuple(x) for x in d] for d in case['dists']]
    exp = {}
    for d in ds:
        for m, a in d:
            exp[m] = exp.get(m, 0.0) + a
    prec = case.get('precision')
    if prec is not None:
        exp = {}
        for d in ds:
            for m, a in d:
                exp[round(m, prec)] = exp.get(round(m, prec), 0.0) + a
        got = pt.merge_isotopic_distributions(*ds, precision=prec)
    else:
        got = pt.merge_isotopic_distributions(*ds)
    r.nontrivial = len(ds) >= 2 and len(exp) < sum(len(d) for d in ds)
    within = prec is not None and any(len({round(m, prec) for m, _a in d}) < len(d) for d in ds)
    r.classes = [f'n={len(ds)}', f'precision={prec}'] + (['peaks-of-one-pattern-collapse'] if within else [])
    ok = [m for m, _a in got] == sorted(exp) and all(abs(a - exp[m]) <= 1e-12 * max(1, abs(exp[m])) for m, a in got)
    if not ok:
        r.fail('merging adds abundances at equal masses, sorted by mass', 'C14/merge/wrong' + ('/precision' if prec is not None else ''),
               dists=ds, precision=prec, got=got)
    return r


AVERAGINE = {'C': 4.9384, 'H': 7.7583, 'N': 1.3577, 'O': 1.4773, 'S': 0.0417}   # Senko et al. 1995, per averagine residue


def check_estimate(case) -> Result:
    """estimate_isotopic_distribution(m): the pattern of the averagine composition scaled to monoisotopic mass m"""
    import warnings
    import peptacular as pt
    r = Result()
    m, o = case['mass'], case['opts']
    no_prune = o['max_isotopes'] is None and o['min_abundance'] is None
    r.nontrivial = m >= 200
    r.classes = (['no-pruning'] if no_prune else ['pruned']) + (['neutron-view'] if o['neutron'] else ['mass-view']) + [f'res={o["resolution"]}']
    ctx = dict(neutral_mass=m, options=o)
    kw = dict(max_isotopes=o['max_isotopes'], min_abundance_threshold=o['min_abundance'], distribution_resolution=o['resolution'],
              use_neutron_count=o['neutron'], distribution_abundance=o['abundance'], is_abundance_sum=o['is_sum'],
              output_masses_for_neutron_offset=o['out_masses'])
    with warnings.catch_warnings():
        warnings.simplefilter('ignore')
        comp = pt.estimate_comp(m)
        unit = sum(refchem.atom_mass(k, True) * v for k, v in AVERAGINE.items())
        if set(comp) != set(AVERAGINE) or any(abs(comp[k] - AVERAGINE[k] * m / unit) > 1e-6 * max(1.0, comp[k]) for k in AVERAGINE):
            r.fail('the estimated composition is averagine scaled to the given monoisotopic mass', 'C14/estimate/composition',
                   got=comp, expected={k: AVERAGINE[k] * m / unit for k in AVERAGINE}, **ctx)
            return r
        dist = pt.estimate_isotopic_distribution(m, **kw)
        same = pt.isotopic_distribution(dict(comp), **kw)
    if dist != same:
        r.fail('the estimated pattern is the pattern of the estimated composition under the same options',
               'C14/estimate/differs-from-pattern-of-estimated-composition', got=dist[:5], expected=same[:5], **ctx)
    if not dist:
        r.fail('a pattern has at least one peak', 'C14/estimate/empty-pattern', **ctx)
        return r
    masses = [x for x, _a in dist]
    if masses != sorted(masses):
        r.fail('sorted by mass', 'C14/estimate/unsorted', masses=masses[:20], **ctx)
    if not _norm_ok(dist, o['abundance'], o['is_sum']):
        r.fail('largest peak (or total) equals the requested abundance', 'C14/estimate/normalisation/' + ('sum' if o['is_sum'] else 'max'), **ctx)
    if o['max_isotopes'] is not None and len(dist) > o['max_isotopes']:
        r.fail('at most max_isotopes peaks', 'C14/estimate/max-isotopes-exceeded', got=len(dist), **ctx)
    res = o['resolution']
    if no_prune and not o['neutron']:
        if abs(dist[0][0] - m) > 6 * 10 ** (-res) + 1e-6:
            r.fail('lightest peak sits at the monoisotopic mass', 'C14/estimate/lightest-peak', got=dist[0][0], expected=m, **ctx)
        avg = refchem.comp_mass(comp, False)
        tot = sum(a for _x, a in dist)
        mean = sum(x * a for x, a in dist) / tot
        tol = MEAN_BASE + MEAN_PER_ATOM * sum(comp.values()) + 6 * 10 ** (-res)
        if abs(mean - avg) > tol:
            sig = _explain_mean(comp, mean - avg, 6 * 10 ** (-res) + 1e-4) or 'C14/estimate/mean'
            r.fail('abundance-weighted mean equals the average mass', sig, got=mean, expected=avg, tol=tol, **ctx)
    return r


def estimate_strategy(tier):
    top = 1500.0 if tier == 'quick' else 4000.0
    return st.fixed_dictionaries({'mass': st.one_of(st.floats(30.0, 600.0, allow_nan=False), st.floats(30.0, top, allow_nan=False),
                                                     st.integers(30, int(top)).map(float)),
                                  'opts': options()})


# ---- strategies --------------------------------------------------------------------------------

def options():
    return st.fixed_dictionaries({
        'max_isotopes': st.one_of(st.none(), st.none(), st.integers(1, 20)),
        'min_abundance': st.sampled_from([None, None, 0, 1e-6, 1e-3]),
        'resolution': st.integers(0, 6),
        'neutron': st.booleans(), 'out_masses': st.booleans(),
        'abundance': st.one_of(st.just(1.0), st.sampled_from([100.0, 0.5, 1e6, 1e-3, 1e-7]), st.floats(1e-3, 1e6, allow_nan=False),
                               st.floats(1e-9, 1e-3, allow_nan=False, exclude_min=True)),
        'is_sum': st.booleans()})


def strategy(tier):
    big = 40 if tier == 'quick' else 200

    @st.composite
    def strat(draw):
        els = draw(st.lists(st.sampled_from(LIGHT + LIGHT + HEAVY), min_size=1, max_size=5, unique=True))
        if draw(st.integers(0, 40)) == 7:
            # an element with many abundant isotopes in a count where the per-element expansion is dominated by tiny terms
            o = draw(options())
            o.update(max_isotopes=None, min_abundance=None, neutron=False)
            return {'comp': [[draw(st.sampled_from(['Se', 'Se', 'Fe'])), draw(st.integers(10, 22))]] +
                    ([[draw(st.sampled_from(LIGHT)), draw(st.integers(1, 30))]] if draw(st.booleans()) else []),
                    'opts': o, 'compare_views': False}
        if draw(st.integers(0, 19)) == 11:
            # counts at the top of the stated range, in either tier
            o = draw(options())
            return {'comp': [[draw(st.sampled_from(LIGHT)), draw(st.integers(150, 200))]] +
                    ([[draw(st.sampled_from(LIGHT)), draw(st.integers(1, 30))]] if draw(st.booleans()) else []),
                    'opts': o, 'compare_views': draw(st.integers(0, 3)) == 0}
        comp = []
        heavy_budget = 60 if (sum(1 for e in els if e in HEAVY) == 1 and len(els) <= 3 and draw(st.integers(0, 2)) == 0) else 8
        for e in els:
            if e in HEAVY:
                c = draw(st.one_of(st.integers(0, 6), st.integers(0, 6), st.integers(7, 22 if e in ('Se', 'Fe') else 60)))
                c = min(c, heavy_budget)
                heavy_budget -= c
            else:
                c = draw(st.one_of(st.integers(0, 12), st.integers(0, big)))
            k = draw(st.integers(0, 9))
            if k in (2, 3):
                c = c + draw(st.sampled_from([0.5, 0.25, 0.1, 0.9, 0.4999]))
            elif k == 4:
                c = float(c)
            comp.append([e, c])
        if draw(st.integers(0, 3)) == 2:
            for p in draw(st.lists(st.sampled_from(['e', 'p', 'n']), min_size=1, max_size=3, unique=True)):
                comp.append([p, draw(st.one_of(st.integers(-3, 3), st.integers(-3, 3), st.sampled_from([0.5, -1.5, 2.25, 6, -7])))])
        if draw(st.integers(0, 5)) == 3:
            comp.append([draw(st.sampled_from(['13C', '15N', '18O', '17O', 'D', '2H', '34S', '33S', 'T'])),
                         draw(st.one_of(st.integers(1, 6), st.integers(1, 6), st.sampled_from([1.5, 2.25, 3.0])))])
        o = draw(options())
        return {'comp': comp, 'opts': o, 'compare_views': draw(st.integers(0, 2)) == 1}
    return strat()


def exact_cases():
    def gen(shard, nshards):
        i = 0
        for total in range(1, 13):
            for combo in itertools.combinations_with_replacement(range(6), total):
                i += 1
                if i % nshards != shard:
                    continue
                comp = {}
                for c in combo:
                    comp[LIGHT[c]] = comp.get(LIGHT[c], 0) + 1
                yield {'comp': [[k, v] for k, v in comp.items()]}
    return gen


LABELS = ['13C', '15N', '18O', '17O', '33S', '34S', 'D', '2H', 'T']
PARTICLE_SETS = [[], [['e', -1]], [['p', 2]], [['n', 1]], [['e', -2], ['p', 2]], [['n', -1], ['e', 3], ['p', 1]]]


def exact_labelled_cases():
    """every composition over C,H,N,O,S,P with 0..4 atoms x one labelled key x count 1..3 x a few particle lists"""
    def gen(shard, nshards):
        i = 0
        for total in range(0, 5):
            for combo in itertools.combinations_with_replacement(range(6), total):
                comp = {}
                for c in combo:
                    comp[LIGHT[c]] = comp.get(LIGHT[c], 0) + 1
                for lab in LABELS:
                    for n in (1, 2, 3):
                        for ps in PARTICLE_SETS:
                            i += 1
                            if i % nshards != shard:
                                continue
                            yield {'comp': [[k, v] for k, v in comp.items()] + [[lab, n]] + ps}
    return gen


def merge_strategy():
    peak = st.tuples(st.sampled_from([100.0, 101.0, 101.5, 102.0, 100.25, 100.04, 101.004, 101.0004, 100.96]) | st.floats(50, 200, allow_nan=False),
                     st.floats(0, 1, allow_nan=False)).map(list)
    return st.fixed_dictionaries({'dists': st.lists(st.lists(peak, max_size=6, unique_by=lambda p: p[0]), min_size=0, max_size=4),
                                  'precision': st.sampled_from([None, None, 0, 1, 2, 3])})


def parts(tier):
    n = 2400 if tier == 'quick' else 40000
    return [
        Part(name='distribution', kind='hyp', check_case=check_case, strategy=lambda: strategy(tier), examples=n),
        Part(name='exact-small', kind='enum', check_case=check_exact, cases=exact_cases(), sharded=True, exhaustive=True,
             distinct_by_construction=True, shards=16, space='every composition over C,H,N,O,S,P with 1..12 atoms (18,563 compositions)'),
        Part(name='exact-labelled', kind='enum', check_case=check_exact, cases=exact_labelled_cases(), sharded=True, exhaustive=True,
             distinct_by_construction=True, shards=16,
             space='every composition over C,H,N,O,S,P with 0..4 atoms x one isotope-labelled key (9) x count 1..3 x 6 particle lists (34,020 compositions)'),
        Part(name='merge', kind='hyp', check_case=check_merge, strategy=merge_strategy, examples=n // 2),
        Part(name='estimate', kind='hyp', check_case=check_estimate, strategy=lambda: estimate_strategy(tier), examples=n // 8),
    ]
