"""C16 - subsequence search and coverage find every occurrence."""
import itertools
from collections import Counter

from hypothesis import strategies as st

from pv import gen, model
from pv.runner import Part, Result

ID = 'C16'
TITLE = 'Subsequence search and coverage find every occurrence'
RULE = ('exhaustive part: every (target over {A,G} of length 0..9, query of length 1..4); random part: modified target '
        'models up to length 40 with queries cut from them (reference slice) or perturbed in one residue / modification; '
        'non-trivial = the reference finds >= 2 occurrences of which at least two overlap')
ASSUMPTIONS = [
    'reference occurrences are computed on the plain-data model (character comparison + modification multiset per position)',
    'a global static rule denotes modifications of its target residues / termini: target and query are compared with their rules written out, in the ordered search as in the unordered test (a global isotope label is compared literally, as the documented examples do)',
    'random part: residue, terminal, isotope-label, static-rule and interval annotations (the property is silent on labile and unknown-position modifications); the modifications of the target on a stretch that cuts through an interval are those of the documented slice: the interval clipped to the stretch (span_to_sequence(\'(PEPT)IDE\', (1, 6, 0)) == \'(EPT)ID\')',
]


def _overlapping(offsets, L):
    return any(b - a < L for a, b in zip(offsets, offsets[1:]))


def _classify_find(exp, got, L, where, plain=None):
    """signatures for a wrong offset list; plain = residue-level occurrences (defaults to exp)"""
    plain = exp if plain is None else plain
    out = []
    if not isinstance(got, list):
        return [(f'C16/{where}/not-a-list', {})]
    missing = [i for i in exp if i not in got]
    spurious = [i for i in got if i not in exp]
    if spurious:
        out.append((f'C16/{where}/spurious-offset', {'spurious': spurious}))
    if missing:
        # an occurrence that starts inside a previous occurrence (non-overlapping regex scan)
        if all(any(0 < m - e < L for e in plain) for m in missing):
            out.append((f'C16/{where}/overlapping-occurrence-dropped', {'missing': missing}))
        else:
            out.append((f'C16/{where}/missing-offset', {'missing': missing}))
    if not missing and not spurious and got != exp:
        out.append((f'C16/{where}/order-or-duplicates', {}))
    return out


def check_plain(case) -> Result:
    import peptacular as pt
    t, q = case['target'], case['query']
    r = Result()
    exp = model.find_all(t, q)
    L = len(q)
    r.nontrivial = len(exp) >= 2 and _overlapping(exp, L)
    r.classes = [f'occ={min(len(exp), 3)}'] + (['overlap'] if r.nontrivial else [])
    for ign in (False, True):
        got = pt.find_subsequence_indices(t, q, ignore_mods=ign)
        for sig, d in _classify_find(exp, got, L, 'find'):
            r.fail('search returns exactly the offsets of all occurrences', sig, target=t, query=q, ignore_mods=ign,
                   expected=exp, got=got, **d)
    got = pt.is_subsequence(q, t, order=True)
    if bool(got) != bool(exp):
        r.fail('ordered containment', 'C16/is_subsequence/ordered-wrong', target=t, query=q, expected=bool(exp), got=got)
    # unordered: multiset inclusion
    expu = not (Counter(q) - Counter(t))
    got = pt.is_subsequence(q, t, order=False)
    if bool(got) != expu:
        r.fail('order-insensitive containment is multiset inclusion', 'C16/is_subsequence/unordered-wrong', target=t, query=q,
               expected=expu, got=got)
    # coverage with this single query
    for acc in (False, True):
        cov_exp = [0] * len(t)
        for i in exp:
            for k in range(i, i + L):
                cov_exp[k] = cov_exp[k] + 1 if acc else 1
        got = pt.coverage(t, [q], accumulate=acc)
        if got != cov_exp:
            dropped = _classify_find(exp, pt.find_subsequence_indices(t, q), L, 'find')
            sig = 'C16/coverage/overlapping-occurrence-dropped' if any('overlapping' in s for s, _ in dropped) \
                else 'C16/coverage/wrong'
            r.fail('coverage marks/counts exactly the positions inside listed occurrences', sig, target=t, query=q,
                   accumulate=acc, expected=cov_exp, got=got)
    pe = (sum(1 for i in range(len(t)) if any(o <= i < o + L for o in exp)) / len(t)) if t else 0
    got = pt.percent_coverage(t, [q])
    if not isinstance(got, (int, float)) or abs(got - pe) > 1e-12 or not (0 <= got <= 1):
        dropped = _classify_find(exp, pt.find_subsequence_indices(t, q), L, 'find')
        sig = 'C16/percent/overlapping-occurrence-dropped' if any('overlapping' in s for s, _ in dropped) else 'C16/percent/wrong'
        r.fail('percent coverage is the marked fraction', sig, target=t, query=q, expected=pe, got=got)
    return r


def plain_cases():
    for n in range(0, 10):
        for t in itertools.product('AG', repeat=n):
            t = ''.join(t)
            for m in range(1, 5):
                for q in itertools.product('AG', repeat=m):
                    yield {'target': t, 'query': ''.join(q)}


# ---- modified targets --------------------------------------------------------------------------

def _occurrences(target, query):
    """offsets where residues match and the target's annotations on that stretch equal the query's"""
    L = len(query['seq'])
    # a global static rule is a way of writing modifications on residues / termini: both sides are compared with their rules
    # written out (the unordered test does the same); a global isotope label is compared literally (documented examples)
    qp = model.sorted_proj(model.expected(model.expand_static(query)))
    out = []
    for i in model.find_all(target['seq'], query['seq']):
        sl = model.expand_static(model.m_slice_clip(target, i, i + L))
        if model.sorted_proj(model.expected(sl)) == qp:
            out.append(i)
    return out


def check_mod(case) -> Result:
    import peptacular as pt
    r = Result()
    target, queries = case['target'], case['queries']
    ts = model.write_pep(target)
    n = len(target['seq'])
    occs = []
    nt = False
    for q in queries:
        qs = model.write_pep(q)
        L = len(q['seq'])
        exp = _occurrences(target, q)
        exp_plain = model.find_all(target['seq'], q['seq'])
        occs.append((q, exp, exp_plain))
        if len(exp) >= 2 and _overlapping(exp, L):
            nt = True
        got = pt.find_subsequence_indices(ts, qs)
        for sig, d in _classify_find(exp, got, L, 'find-mod', exp_plain):
            r.fail('search returns the offsets where residues and modifications match', sig, target=ts, query=qs, expected=exp,
                   got=got, **d)
        got = pt.find_subsequence_indices(ts, qs, ignore_mods=True)
        for sig, d in _classify_find(exp_plain, got, L, 'find-ignore-mods'):
            r.fail('with modifications ignored the search is plain substring search', sig, target=ts, query=qs,
                   expected=exp_plain, got=got, **d)
        # annotation objects give the same answer as strings
        got = pt.find_subsequence_indices(pt.parse(ts), pt.parse(qs))
        for sig, d in _classify_find(exp, got, L, 'find-mod-annotation', exp_plain):
            r.fail('search on annotation objects', sig, target=ts, query=qs, expected=exp, got=got, **d)
    r.nontrivial = nt
    r.classes = (['overlap'] if nt else []) + [f'queries={len(queries)}'] + \
        (['some-hit'] if any(e for _q, e, _p in occs) else ['no-hit']) + \
        (['mods-decide'] if any(e != p for _q, e, p in occs) else [])
    for ign in (False, True):
        for acc in (False, True):
            cov = [0] * n
            for q, exp, exp_plain in occs:
                for i in (exp_plain if ign else exp):
                    for k in range(i, i + len(q['seq'])):
                        cov[k] = cov[k] + 1 if acc else 1
            got = pt.coverage(ts, [model.write_pep(q) for q, _e, _p in occs], accumulate=acc, ignore_mods=ign)
            if got != cov:
                lost = any('overlapping' in s for q, e, p in occs for s, _ in
                           _classify_find(p if ign else e, pt.find_subsequence_indices(ts, model.write_pep(q), ignore_mods=ign),
                                          len(q['seq']), 'x'))
                r.fail('coverage marks/counts exactly the positions inside listed occurrences',
                       'C16/coverage-mod/overlapping-occurrence-dropped' if lost else 'C16/coverage-mod/wrong',
                       target=ts, queries=[model.write_pep(q) for q, _e, _p in occs], accumulate=acc, ignore_mods=ign,
                       expected=cov, got=got)
            if not acc:
                pe = sum(cov) / n if n else 0
                got = pt.percent_coverage(ts, [model.write_pep(q) for q, _e, _p in occs], ignore_mods=ign)
                if not isinstance(got, (int, float)) or abs(got - pe) > 1e-12 or not (0 <= got <= 1):
                    lost = any('overlapping' in s for q, e, p in occs for s, _ in
                               _classify_find(p if ign else e,
                                              pt.find_subsequence_indices(ts, model.write_pep(q), ignore_mods=ign),
                                              len(q['seq']), 'x'))
                    r.fail('percent coverage is the marked fraction',
                           'C16/percent-mod/overlapping-occurrence-dropped' if lost else 'C16/percent-mod/wrong',
                           target=ts, expected=pe, got=got, ignore_mods=ign)
    return r


def _residue_key(aa, mods):
    return aa + '|' + '|'.join(sorted(repr((model.typed(t), m)) for t, m in mods))


def check_unordered(case) -> Result:
    """order-insensitive containment <=> multiset inclusion of modified residues (residue mods / static residue rules)"""
    import peptacular as pt
    r = Result()
    target, query = case['target'], case['query']
    ct = Counter(_residue_key(aa, ms) for aa, ms in model.residues_with_mods(model.expand_static(target)))
    cq = Counter(_residue_key(aa, ms) for aa, ms in model.residues_with_mods(model.expand_static(query)))
    exp = not (cq - ct)
    # a modified residue is a residue with the MULTISET of its modifications (annotation equality ignores the order in which the
    # modifications of one position are written - C20), so [a][b] and [b][a] on one residue are the same modified residue
    def okey(aa, ms):
        return aa + '|' + '|'.join(repr((model.typed(t), m)) for t, m in ms)
    ct_o = Counter(okey(aa, ms) for aa, ms in model.residues_with_mods(model.expand_static(target)))
    cq_o = Counter(okey(aa, ms) for aa, ms in model.residues_with_mods(model.expand_static(query)))
    order_decides = (not (cq_o - ct_o)) != exp
    ts, qs = model.write_pep(target), model.write_pep(query)
    got = pt.is_subsequence(qs, ts, order=False)
    r.nontrivial = bool(target['internal'] or target['static']) and len(query['seq']) >= 2
    r.classes = ['contained' if exp else 'not-contained'] + (['static'] if target['static'] or query['static'] else []) + \
        (['modification-order-differs'] if order_decides else [])
    if bool(got) != exp:
        r.fail('order-insensitive containment is multiset inclusion of modified residues',
               'C16/is_subsequence/unordered-mod-wrong' + ('/modification-order-sensitive' if order_decides else ''),
               target=ts, query=qs, expected=exp, got=got)
    return r


_SIMPLE_MODS = ['Oxidation', 'Phospho', '+1', '15.995', 'Acetyl', 'Formula:C2', '-18.0106', 'Methyl']


def _simple_mod():
    return st.tuples(st.sampled_from(_SIMPLE_MODS), st.sampled_from([1, 1, 1, 2])).map(list)


def mod_strategy():
    target_s = gen.pep_model(alphabet='AG', min_len=1, max_len=14, kinds=('internal', 'nterm', 'cterm', 'isotope', 'static', 'intervals'),
                             mod_strategy=_simple_mod(), mod_list=st.lists(_simple_mod(), min_size=1, max_size=2),
                             allow_empty=False, rule_targets='AG', isotopes=['13C', '15N'])
    target_l = gen.pep_model(alphabet='ACDEGKLMPST', min_len=1, max_len=40,
                             kinds=('internal', 'nterm', 'cterm', 'isotope', 'static', 'intervals'),
                             mod_strategy=_simple_mod(), mod_list=st.lists(_simple_mod(), min_size=1, max_size=2),
                             allow_empty=False, isotopes=['13C', '15N'])

    @st.composite
    def strat(draw):
        target = draw(st.one_of(target_s, target_s, target_l))
        n = len(target['seq'])
        # periodic mods on a periodic sequence make modified overlapping occurrences likely
        if draw(st.booleans()) and n >= 4:
            m = draw(_simple_mod())
            step = draw(st.integers(1, 2))
            target['seq'] = (target['seq'][:step] * n)[:n]
            target['internal'] = [[i, [list(m)]] for i in range(draw(st.integers(0, step - 1)), n, step)] \
                if draw(st.booleans()) else target['internal']
            target['internal'] = [[i, ms] for i, ms in target['internal'] if i < n]
        queries = []
        for _ in range(draw(st.integers(1, 3))):
            i = draw(st.integers(0, n - 1))
            j = draw(st.integers(i + 1, min(n, i + 6)))
            q = model.m_slice_clip(target, i, j)
            kind = draw(st.sampled_from(['cut', 'cut', 'cut', 'drop-mod', 'add-mod', 'residue', 'strip-global', 'explicit-static']))
            if kind == 'drop-mod' and q['internal']:
                q['internal'].pop(draw(st.integers(0, len(q['internal']) - 1)))
            elif kind == 'add-mod':
                k = draw(st.integers(0, len(q['seq']) - 1))
                d = {a: b for a, b in q['internal']}
                d.setdefault(k, []).append(draw(_simple_mod()))
                q['internal'] = sorted([[a, b] for a, b in d.items()])
            elif kind == 'residue':
                k = draw(st.integers(0, len(q['seq']) - 1))
                q['seq'] = q['seq'][:k] + draw(st.sampled_from('AGK')) + q['seq'][k + 1:]
            elif kind == 'explicit-static':
                q = model.expand_static(q)  # the same modified residues, written on the residues instead of as a rule
            elif kind == 'strip-global':
                q['isotope'] = []
                q['static'] = []
            queries.append(q)
        return {'target': target, 'queries': queries}
    return strat()


def unordered_strategy():
    pm = gen.pep_model(alphabet='AGKM', min_len=1, max_len=10, kinds=('internal', 'static'),
                       mod_strategy=_simple_mod(), mod_list=st.lists(_simple_mod(), min_size=1, max_size=2),
                       allow_empty=False, rule_targets='AGKM')

    @st.composite
    def strat(draw):
        target = draw(pm)
        for rule in target['static']:
            rule[1] = [t for t in rule[1] if len(t) == 1] or ['A']
        n = len(target['seq'])
        if draw(st.booleans()):
            # a sub-multiset of the target's modified residues, shuffled
            full = model.expand_static(target)
            idx = draw(st.lists(st.integers(0, n - 1), min_size=1, max_size=n, unique=True))
            d = {a: b for a, b in full['internal']}
            q = model.empty_pep(''.join(full['seq'][i] for i in idx))
            q['internal'] = [[k, list(draw(st.permutations(d[i])))] for k, i in enumerate(idx) if i in d]
            if draw(st.integers(0, 3)) == 1 and q['internal']:
                q['internal'].pop()
        else:
            q = draw(pm)
            for rule in q['static']:
                rule[1] = [t for t in rule[1] if len(t) == 1] or ['A']
        return {'target': target, 'query': q}
    return strat()


def parts(tier):
    n = 3000 if tier == 'quick' else 150000
    return [
        Part(name='plain-exhaustive', kind='enum', check_case=check_plain, cases=plain_cases, exhaustive=True, shards=16,
             space='all targets over {A,G} of length 0..9 x all queries of length 1..4 (30,690 pairs)'),
        Part(name='modified', kind='hyp', check_case=check_mod, strategy=mod_strategy, examples=n),
        Part(name='unordered', kind='hyp', check_case=check_unordered, strategy=unordered_strategy, examples=n // 2),
    ]
