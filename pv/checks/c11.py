"""C11 - reordering and cutting a peptide moves modifications with their residues."""
import copy
from collections import Counter

from hypothesis import strategies as st

from pv import gen, model
from pv.runner import Part, Result

ID = 'C11'
TITLE = 'Reordering and cutting a peptide moves modifications with their residues'
RULE = ('case = generated annotation of length 1..25 (all kinds; intervals at the start, middle, end, adjacent) x shift amounts in '
        '[-2n,2n] x seeds x slice bounds that do not fall strictly inside an interval x inplace; non-trivial = an interval touching '
        'an end of the operation range, or terminal plus residue modifications')
ASSUMPTIONS = [
    'reference operations are the few-line list manipulations of pv/model.py',
    'shuffle / sort: the property is silent about intervals, so interval fields are not compared there',
    'slice: labile, unknown-position, charge and adduct carry-over is not asserted (the property is silent)',
]

CMP_SLICE = ('seq', 'internal', 'intervals', 'nterm', 'cterm', 'static', 'isotope')
CMP_NO_IV = ('seq', 'internal', 'nterm', 'cterm', 'static', 'isotope', 'labile', 'unknown', 'charge', 'adducts')


def _sub(p, keys):
    return {k: p[k] for k in keys}


def _res_multiset(pep_or_proj, from_proj=False):
    if from_proj:
        seq, internal = pep_or_proj['seq'], pep_or_proj['internal'] or {}
        return Counter((aa, repr(sorted(map(repr, internal.get(str(i), []))))) for i, aa in enumerate(seq))
    e = model.expected(pep_or_proj)
    return _res_multiset(e, True)


def _cuts_ok(pep, i):
    return not any(s < i < e for s, e, _a, _m in pep['intervals'])


def check_case(case) -> Result:
    import peptacular as pt
    r = Result()
    pep = case['pep']
    n = len(pep['seq'])
    s = model.write_pep(pep)
    a0 = pt.parse(s)
    touches = any(iv[0] == 0 or iv[1] == n for iv in pep['intervals'])
    r.nontrivial = touches or (bool(pep['internal']) and bool(pep['nterm'] or pep['cterm']))
    r.classes = (['intervals'] if pep['intervals'] else []) + (['interval-at-end'] if touches else []) + \
        (['terminal'] if pep['nterm'] or pep['cterm'] else []) + (['internal'] if pep['internal'] else []) + \
        (['adjacent-intervals'] if any(a[1] == b[0] for a, b in zip(pep['intervals'], pep['intervals'][1:])) else [])
    ctx = dict(sequence=s)
    base = model.project(a0)
    m0 = pt.mass(s, charge=0)

    m0c = pt.mass(s) if pep['adducts'] else None

    def same_mass(out_s, op):
        m = pt.mass(out_s, charge=0)
        if abs(m - m0) > 1e-6:
            r.fail('total mass is unchanged', f'C11/{op}/mass-changed', result=out_s, before=m0, after=m, **ctx)
        elif m0c is not None and abs(pt.mass(out_s) - m0c) > 1e-6:
            r.fail('total mass is unchanged', f'C11/{op}/mass-changed/with-charge-carriers', result=out_s, before=m0c, after=pt.mass(out_s), **ctx)

    # ---- reverse ----
    for swap in (False, True):
        out_s = pt.reverse(s, swap_terms=swap)
        try:
            obs = model.project(pt.parse(out_s))
        except ValueError as e:
            r.fail('the reversed peptide is a valid annotation', 'C11/reverse/result-does-not-parse', result=out_s, error=str(e)[:100], **ctx)
            continue
        exp = model.expected(model.m_reverse(pep, swap))
        if obs != exp:
            fields = model.diff_fields(exp, obs)
            sig = 'C11/reverse/' + '+'.join(fields)
            r.fail('reverse: every residue keeps its modifications, intervals cover the same residues, terminals stay or swap',
                   sig, swap_terms=swap, result=out_s, expected={k: exp[k] for k in fields}, got={k: obs[k] for k in fields}, **ctx)
        same_mass(out_s, 'reverse')
        b = a0.copy()
        b.reverse(inplace=True, swap_terms=swap)
        if model.project(b) != model.project(a0.reverse(swap_terms=swap)):
            r.fail('in-place equals out-of-place', 'C11/reverse/inplace-differs', swap_terms=swap, **ctx)
    try:
        twice = pt.parse(pt.reverse(pt.reverse(s)))
    except ValueError as e:
        r.fail('reverse twice is the identity', 'C11/reverse/twice-does-not-parse', error=str(e)[:100], **ctx)
        twice = None
    if twice is not None and model.project(twice) != base:
        r.fail('reverse twice is the identity', 'C11/reverse/twice-not-identity', fields=model.diff_fields(base, model.project(twice)),
               result=twice.serialize(), **ctx)

    # ---- shift ----
    for k in case['shifts']:
        k = max(-2 * n, min(2 * n, k))
        out = a0.shift(k)
        obs = model.project(out)
        keff = k % n
        items = model.m_rotate_residues(pep, k)
        exp_seq = ''.join(aa for aa, _ in items)
        if obs['seq'] != exp_seq:
            r.fail('shift: the sequence is the rotation', 'C11/shift/sequence', k=k, expected=exp_seq, got=obs['seq'], **ctx)
            continue
        q = model.empty_pep(exp_seq)
        q['internal'] = [[i, ms] for i, (_aa, ms) in enumerate(items) if ms]
        if obs['internal'] != model.expected(q)['internal']:
            r.fail('shift: every residue keeps its modifications', 'C11/shift/residue-mods', k=k, got=obs['internal'], **ctx)
        for f in ('nterm', 'cterm', 'static', 'isotope', 'labile', 'unknown', 'charge', 'adducts'):
            if obs[f] != base[f]:
                r.fail('shift: global and terminal annotations stay in place', f'C11/shift/{f}-changed', k=k, **ctx)
        if pt.shift(s, k) != out.serialize():
            r.fail('string and annotation forms agree', 'C11/shift/string-vs-annotation', k=k, string=pt.shift(s, k), annotation=out.serialize(), **ctx)
        wraps = any(((s_ - keff) % n) + (e_ - s_) > n for s_, e_, _a, _m in pep['intervals']) if keff else False
        # an interval modification belongs to its residues: the interval lands where they land
        q['intervals'] = sorted([(s_ - keff) % n, (s_ - keff) % n + (e_ - s_), a_, m_] for s_, e_, a_, m_ in pep['intervals'])
        exp_iv = model.sorted_proj(model.expected(q))['intervals']
        got_iv = model.sorted_proj(obs)['intervals']
        if not wraps:
            if got_iv != exp_iv:
                r.fail('shift: every residue keeps its modifications (an interval moves with its residues)', 'C11/shift/interval-not-moved-with-its-residues',
                       k=k, expected=exp_iv, got=got_iv, result=out.serialize(), **ctx)
            same_mass(out.serialize(), 'shift')
        else:
            # an interval that would wrap around the end cannot be written in the linear notation; the library stores the two
            # rotated bounds in ascending order (known finding): the modifications stay, the residues covered change
            q['intervals'] = sorted(sorted([(s_ - keff) % n, (e_ - keff) % n]) + [a_, m_] if ((s_ - keff) % n) + (e_ - s_) > n else
                                    [(s_ - keff) % n, (s_ - keff) % n + (e_ - s_), a_, m_] for s_, e_, a_, m_ in pep['intervals'])
            known_iv = model.sorted_proj(model.expected(q))['intervals']
            sig = 'C11/shift/interval-wraps-around-not-representable' if got_iv == known_iv else 'C11/shift/interval-wrong-after-wrapping-shift'
            try:
                pt.parse(out.serialize())
                parses = True
            except ValueError as e:
                parses = False
                r.fail('shift: the result is a valid annotation', sig if sig.endswith('representable') else 'C11/shift/result-does-not-parse', k=k,
                       result=out.serialize(), error=str(e)[:80], **ctx)
            if sig.endswith('wrong-after-wrapping-shift'):
                r.fail('shift: every residue keeps its modifications', sig, k=k, got=got_iv, stored_by_the_recorded_finding=known_iv,
                       result=out.serialize(), **ctx)
            if parses:
                same_mass(out.serialize(), 'shift')
        back = model.project(out.shift(-k))
        if back != base:
            fields = model.diff_fields(base, back)
            if fields == ['intervals'] and wraps:
                sig = 'C11/shift/interval-wraps-around-not-representable'
            elif fields == ['intervals']:
                sig = 'C11/shift/interval-not-restored'
            else:
                sig = 'C11/shift/k-then-minus-k/' + '+'.join(fields)
            r.fail('shift by k then -k is the identity', sig, k=k, got={f: back[f] for f in fields}, expected={f: base[f] for f in fields}, **ctx)
        b = a0.copy()
        b.shift(k, inplace=True)
        if model.project(b) != obs:
            r.fail('in-place equals out-of-place', 'C11/shift/inplace-differs', k=k, **ctx)
    for k in (0, n, -n, 2 * n):
        obs = model.project(a0.shift(k))
        if obs != base:
            fields = model.diff_fields(base, obs)
            sig = 'C11/shift/by-length-not-identity/' + '+'.join(fields)
            r.fail('shift by the length (or 0) is the identity', sig, k=k, got={f: obs[f] for f in fields},
                   expected={f: base[f] for f in fields}, **ctx)
            break

    # ---- shuffle / sort ----
    ms0 = _res_multiset(pep)
    for seed in case['seeds']:
        out = a0.shuffle(seed=seed)
        obs = model.project(out)
        if _res_multiset(obs, True) != ms0:
            r.fail('shuffle: a permutation in which every residue keeps its modifications', 'C11/shuffle/residue-mods', seed=seed,
                   result=out.serialize(), **ctx)
        for f in ('nterm', 'cterm', 'static', 'isotope', 'labile', 'unknown', 'charge', 'adducts'):
            if obs[f] != base[f]:
                r.fail('shuffle: global and terminal annotations stay in place', f'C11/shuffle/{f}-changed', seed=seed, **ctx)
        again = model.project(a0.shuffle(seed=seed))
        if again != obs:
            r.fail('same seed gives the same result', 'C11/shuffle/seed-not-deterministic', seed=seed, **ctx)
        if pt.shuffle(s, seed=seed) != out.serialize():
            r.fail('string and annotation forms agree', 'C11/shuffle/string-vs-annotation', seed=seed, **ctx)
        same_mass(out.serialize(), 'shuffle')
        b = a0.copy()
        b.shuffle(seed=seed, inplace=True)
        if model.project(b) != obs:
            r.fail('in-place equals out-of-place', 'C11/shuffle/inplace-differs', seed=seed, fields=model.diff_fields(obs, model.project(b)), **ctx)
    out = a0.sort_residues()
    obs = model.project(out)
    if obs['seq'] != ''.join(sorted(pep['seq'])) or _res_multiset(obs, True) != ms0:
        r.fail('sort: sorted residues, each keeping its modifications', 'C11/sort/residue-mods', result=out.serialize(), **ctx)
    for f in ('nterm', 'cterm', 'static', 'isotope', 'labile', 'unknown', 'charge', 'adducts'):
        if obs[f] != base[f]:
            r.fail('sort: global and terminal annotations stay in place', f'C11/sort/{f}-changed', **ctx)
    if pt.sort(s) != out.serialize():
        r.fail('string and annotation forms agree', 'C11/sort/string-vs-annotation', **ctx)
    same_mass(out.serialize(), 'sort')
    b = a0.copy()
    b.sort_residues(inplace=True)
    if model.project(b) != obs:
        r.fail('in-place equals out-of-place', 'C11/sort/inplace-differs', fields=model.diff_fields(obs, model.project(b)), **ctx)

    # ---- slice ----
    for (i, j) in case['slices']:
        i, j = min(i, n), min(j, n)
        if i > j:
            i, j = j, i
        if not (_cuts_ok(pep, i) and _cuts_ok(pep, j)):
            continue
        ref = model.m_slice(pep, i, j)
        exp = model.expected(ref)
        out = a0.slice(i, j)
        obs = model.project(out)
        if _sub(obs, CMP_SLICE) != _sub(exp, CMP_SLICE):
            fields = [f for f in CMP_SLICE if obs[f] != exp[f]]
            sig = 'C11/slice/' + '+'.join(fields)
            if fields == ['intervals'] and any(e_ == i or (s_ == j and False) for s_, e_, _a, _m in pep['intervals']):
                # an interval that ends exactly where the slice starts
                got_iv = obs['intervals'] or []
                if any(x[0] == 0 and x[1] == 0 for x in got_iv):
                    sig = 'C11/slice/keeps-interval-ending-at-start-as-empty'
            r.fail('slice keeps exactly the residues, residue modifications and fully contained intervals of the range', sig,
                   bounds=[i, j], result=out.serialize(), expected={f: exp[f] for f in fields}, got={f: obs[f] for f in fields}, **ctx)
            continue
        if pt.span_to_sequence(s, (i, j, 0)) != out.serialize():
            r.fail('span_to_sequence is the serialized slice', 'C11/slice/span_to_sequence-differs', bounds=[i, j], **ctx)
        b = a0.copy()
        b.slice(i, j, inplace=True)
        if model.project(b) != obs:
            fields = model.diff_fields(obs, model.project(b))
            r.fail('in-place equals out-of-place', 'C11/slice/inplace-differs/' + '+'.join(fields), bounds=[i, j],
                   inplace=model.project(b), out_of_place=obs, **ctx)
        if j > i:
            ser = out.serialize()
            back = pt.parse(ser)
            if model.project(back) != obs:
                r.fail('a non-empty slice re-parses from its serialization', 'C11/slice/reparse-differs', bounds=[i, j], result=ser, **ctx)
            elif not (back == out):
                pe = model.project(out, True)
                sig = 'C11/slice/reparse-not-equal'
                if pe['intervals'] == [] and model.project(back, True)['intervals'] is None:
                    sig = 'C11/slice/empty-interval-list-instead-of-none'
                r.fail('a non-empty slice re-parses to an equal annotation', sig, bounds=[i, j], result=ser, **ctx)
            elif bool(out.has_mods()) != bool(back.has_mods()):
                r.fail('a non-empty slice re-parses to an equal annotation', 'C11/slice/empty-container-instead-of-none', bounds=[i, j],
                       result=ser, slice_has_mods=bool(out.has_mods()), reparsed_has_mods=bool(back.has_mods()), **ctx)
        # composition of slices
        for (k, l) in case['inner']:
            k, l = min(k, j - i), min(l, j - i)
            if k > l:
                k, l = l, k
            if not (_cuts_ok(ref, k) and _cuts_ok(ref, l)):
                continue
            two = model.project(out.slice(k, l))
            one = model.project(a0.slice(i + k, i + l))
            if _sub(two, CMP_SLICE) != _sub(one, CMP_SLICE):
                fields = [f for f in CMP_SLICE if two[f] != one[f]]
                r.fail('slice of a slice is the slice of the summed offsets', 'C11/slice/composition/' + '+'.join(fields), outer=[i, j],
                       inner=[k, l], **ctx)
            break

    # ---- slice of an equal annotation whose containers were filled in another order ----
    if pep['internal'] or len(pep['intervals']) >= 2:
        d = a0.dict()
        if d['internal_mods']:
            d['internal_mods'] = {k: d['internal_mods'][k] for k in sorted(d['internal_mods'], reverse=True)}
        if d['intervals']:
            d['intervals'] = list(reversed(d['intervals']))
        twin = pt.create_annotation(**d)
        for (i, j) in case['slices'][:3]:
            i, j = min(i, n), min(j, n)
            if i > j:
                i, j = j, i
            if not (_cuts_ok(pep, i) and _cuts_ok(pep, j)):
                continue
            x, y = model.sorted_proj(model.project(a0.slice(i, j))), model.sorted_proj(model.project(twin.slice(i, j)))
            if _sub(x, CMP_SLICE) != _sub(y, CMP_SLICE):
                fields = [f for f in CMP_SLICE if x[f] != y[f]]
                r.fail('slicing does not depend on the order in which the modification containers were filled',
                       'C11/slice/container-order-dependent/' + '+'.join(fields), bounds=[i, j], **ctx)
                break

    # ---- slice of a reversed peptide (interval list no longer in sequence order) ----
    if pep['intervals']:
        rev = model.m_reverse(pep)
        ra = a0.reverse()
        for (i, j) in case['slices'][:3]:
            i, j = min(i, n), min(j, n)
            if i > j:
                i, j = j, i
            if not (_cuts_ok(rev, i) and _cuts_ok(rev, j)):
                continue
            exp = model.expected(model.m_slice(rev, i, j))
            obs = model.project(ra.slice(i, j))
            if _sub(model.sorted_proj(obs), CMP_SLICE) != _sub(model.sorted_proj(exp), CMP_SLICE):
                fields = [f for f in CMP_SLICE if model.sorted_proj(obs)[f] != model.sorted_proj(exp)[f]]
                r.fail('slice keeps exactly the fully contained intervals, also after a reversal', 'C11/reverse-then-slice/' + '+'.join(fields),
                       bounds=[i, j], reversed=ra.serialize(), result=ra.slice(i, j).serialize(), **ctx)
                break

    # ---- split ----
    if all(e_ - s_ == 1 for s_, e_, _a, _m in pep['intervals']):
        pieces = pt.split(s)
        if len(pieces) != n:
            r.fail('split gives one piece per residue', 'C11/split/count', got=len(pieces), **ctx)
        else:
            internal = {i: ms for i, ms in pep['internal']}
            ivs = {s_: [a_, m_] for s_, _e, a_, m_ in pep['intervals']}
            labile_seen = []
            for k, piece in enumerate(pieces):
                q = model.empty_pep(pep['seq'][k])
                if k in internal:
                    q['internal'] = [[0, internal[k]]]
                if k in ivs:
                    q['intervals'] = [[0, 1] + ivs[k]]
                if k == 0:
                    q['nterm'] = pep['nterm']
                if k == n - 1:
                    q['cterm'] = pep['cterm']
                q['static'], q['isotope'] = model.m_slice(pep, k, k + 1)['static'], pep['isotope']
                exp = model.expected(q)
                obs = model.project(pt.parse(piece))
                labile_seen += list(obs['labile'] or [])
                cmp = ('seq', 'internal', 'intervals', 'nterm', 'cterm', 'static', 'isotope')
                if _sub(obs, cmp) != _sub(exp, cmp):
                    fields = [f for f in cmp if obs[f] != exp[f]]
                    r.fail('splitting into residues and concatenating reproduces the peptide', 'C11/split/' + '+'.join(fields), index=k,
                           piece=piece, **ctx)
                    break
            else:
                # the labile modifications of the peptide are on the pieces exactly once
                if sorted(map(repr, labile_seen)) != sorted(map(repr, base['labile'] or [])):
                    r.fail('splitting into residues and concatenating reproduces the peptide', 'C11/split/labile', pieces=pieces[:6],
                           expected=base['labile'], got=labile_seen, **ctx)
            if not any(pep[k] for k in ('static', 'isotope', 'unknown')) and pep['charge'] is None:
                # residue, interval, terminal and labile modifications are written next to their residue: the pieces concatenate
                # to a string that reads as the peptide
                try:
                    joined = model.project(pt.parse(''.join(pieces)))
                except ValueError as e:
                    joined = None
                    r.fail('the pieces concatenate to the peptide', 'C11/split/concatenation-does-not-parse', pieces=pieces[:8], error=str(e)[:100], **ctx)
                if joined is not None and joined != base:
                    r.fail('the pieces concatenate to the peptide', 'C11/split/concatenation-differs/' + '+'.join(model.diff_fields(base, joined)),
                           pieces=pieces[:8], **ctx)
    return r


def strategy():
    one = gen.mass_mod(('num', 'formula', 'unimod'), max_mult=2, decorate=True)
    st_text = gen.mass_mod_text(('num', 'formula', 'unimod'), gt_ok=False)
    pm = gen.pep_model(alphabet=gen.AA_MASS, min_len=1, max_len=25, mod_strategy=one, mod_list=st.lists(one, min_size=1, max_size=2),
                       allow_empty=False, static_mod_text=st_text, isotopes=['13C', '15N'])

    @st.composite
    def strat(draw):
        pep = draw(pm)
        n = len(pep['seq'])
        # intervals touching the ends / adjacent, by construction, in a third of the cases
        if n >= 2 and draw(st.integers(0, 2)) == 1:
            c = draw(st.integers(1, n - 1))
            mods = draw(st.lists(one, max_size=1))
            choice = draw(st.sampled_from(['start', 'end', 'adjacent']))
            if choice == 'start':
                pep['intervals'] = [[0, c, draw(st.booleans()), mods]]
            elif choice == 'end':
                pep['intervals'] = [[c, n, draw(st.booleans()), mods]]
            else:
                pep['intervals'] = [[0, c, False, mods], [c, n, draw(st.booleans()), []]]
        bounds = st.integers(0, n)
        cuts = sorted({0, n} | {x for iv in pep['intervals'] for x in iv[:2]})
        at_cut = st.sampled_from(cuts)
        pair = st.tuples(st.one_of(bounds, at_cut), st.one_of(bounds, at_cut)).map(list)
        return {'pep': pep, 'shifts': draw(st.lists(st.integers(-2 * n, 2 * n), min_size=2, max_size=4)),
                'seeds': draw(st.lists(st.integers(0, 1000), min_size=1, max_size=2)),
                'slices': draw(st.lists(pair, min_size=3, max_size=6)),
                'inner': draw(st.lists(st.tuples(bounds, bounds).map(list), min_size=3, max_size=3))}
    return strat()


def parts(tier):
    n = 3000 if tier == 'quick' else 120000
    return [Part(name='reorder-and-cut', kind='hyp', check_case=check_case, strategy=strategy, examples=n)]
