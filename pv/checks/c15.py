"""C15 - chemical and glycan formulas survive a write/parse round trip and add linearly."""
import re
from functools import lru_cache

from hypothesis import strategies as st

from pv import obo, refchem
from pv.runner import Part, Result

ID = 'C15'
TITLE = 'Chemical and glycan formulas survive a write/parse round trip and add linearly'
RULE = ('case = composition over all symbols of the bundled table, isotope-prefixed keys, D/T and e/p/n with integer counts in '
        '[-200,500] or decimals with <= 4 places x separator x hill_order (plus a second composition for additivity); glycan '
        'part: multisets of the 27 monosaccharides (names and synonyms), counts in [-5,20], plus every ordered pair of names exhaustively; non-trivial = >= 3 keys incl. an '
        'isotope or particle or a two-letter element sharing its first letter with another key')
ASSUMPTIONS = [
    'reference masses come from pv/refchem.py (literals + own chem.txt reader); monoisotopic = most abundant isotope',
    'glycan round trip is asserted only when the harness tokenizer finds exactly one tokenisation of the written string',
]


def _close(a, b, rel=1e-9):
    return abs(a - b) <= rel * max(1.0, abs(a), abs(b))


def _same_comp(a, b):
    ka = {k for k, v in a.items() if v != 0}
    kb = {k for k, v in b.items() if v != 0}
    if ka != kb:
        return False
    return all(_close(a[k], b[k]) for k in ka)


def _same_comp_typed(a, b):
    if set(a) != set(b):
        return False
    return all(a[k] == b[k] and type(a[k]) is type(b[k]) for k in a)


def check_chem(case) -> Result:
    import peptacular as pt
    r = Result()
    c1 = {k: v for k, v in case['c1']}
    c2 = {k: v for k, v in case['c2']}
    sep, hill = case['sep'], case['hill']
    keys = [k for k, v in c1.items() if v != 0]
    special = any(k[0].isdigit() or k in 'DTepn' for k in keys)
    firsts = {}
    for k in keys:
        m = re.match(r'^\d*([A-Z])([a-z]?)$', k)
        if m:
            firsts.setdefault(m.group(1), set()).add(k)
    shared = any(len(v) >= 2 and any(len(re.sub(r'^\d*', '', x)) == 2 for x in v) for v in firsts.values()) or \
        any(k in ('e', 'p', 'n') for k in keys) and any(x.endswith(('e', 'p', 'n')) and len(x) == 2 for x in keys)
    r.nontrivial = len(keys) >= 3 and (special or shared)
    r.classes = [f'sep={sep!r}', f'hill={hill}'] + (['isotope/particle'] if special else []) + (['shared-first-letter'] if shared else []) + \
        (['float'] if any(isinstance(v, float) for v in c1.values()) else []) + (['negative'] if any(v < 0 for v in c1.values()) else [])
    exp = {k: v for k, v in c1.items() if v != 0}
    if sep != '' and not exp:
        return r
    s = pt.write_chem_formula(c1, sep=sep, hill_order=hill)
    ctx = dict(composition=c1, sep=sep, hill=hill, written=s)
    if not isinstance(s, str):
        r.fail('write returns a string', 'C15/write/type', **ctx)
        return r
    try:
        back = pt.parse_chem_formula(s, sep=sep)
    except ValueError as e:
        r.fail('the written formula parses', 'C15/roundtrip/parse-raises', error=str(e)[:150], **ctx)
        return r
    if not _same_comp_typed(back, exp):
        sig = 'C15/roundtrip/keys' if set(back) != set(exp) else 'C15/roundtrip/values-or-types'
        r.fail('parse(write(c)) == c without zero entries (keys, values, int/float type)', sig, got=back, **ctx)
    # parsing is a pure function of the string: editing an earlier result (the library's own label helper edits parsed
    # compositions in place) must not change what the same string parses to next time
    if exp:
        first = dict(back)
        try:
            pt.apply_isotope_mods_to_composition(s if sep == '' else dict(back), ['13C', '15N', 'D'])
        except ValueError:
            pass
        back['Zz'] = 5
        if first:
            back.pop(next(iter(first)), None)
        again = pt.parse_chem_formula(s, sep=sep)
        if not _same_comp_typed(again, first):
            r.fail('parsing the same string twice gives the same composition', 'C15/roundtrip/parse-result-shared-between-calls', first=first,
                   second=again, **ctx)
    # mass of the string == mass of the composition == reference
    for mono in (True, False):
        try:
            m_str = pt.chem_mass(s, monoisotopic=mono, sep=sep)
            m_comp = pt.chem_mass(c1, monoisotopic=mono)
        except ValueError as e:
            r.fail('mass of a known composition', 'C15/mass/raises', error=str(e)[:150], mono=mono, **ctx)
            continue
        ref = refchem.comp_mass(exp, mono)
        scale = sum(abs(v) for v in exp.values()) * 250 + 1
        if abs(m_str - m_comp) > 1e-9 * scale:
            r.fail('mass of the string equals the mass of the composition', 'C15/mass/string-vs-composition', mono=mono,
                   string_mass=m_str, comp_mass=m_comp, **ctx)
        if abs(m_comp - ref) > 1e-9 * scale:
            r.fail('mass of the composition equals the reference mass', 'C15/mass/composition-vs-reference', mono=mono,
                   comp_mass=m_comp, reference=ref, **ctx)
    # hill order: C first, then H, then alphabetical (checked on element letters only)
    if hill and sep == '':
        order = re.findall(r'\[?(\d*)([A-Z][a-z]?|e|p|n)', s)
        syms = [x[1] for x in order]
        def rank(sym):
            if sym == 'C':
                return (0, '')
            if sym in ('H', 'D', 'T'):
                return (1, '')
            return (2, sym)
        rk = [rank(x) for x in syms if x not in ('e', 'p', 'n')]
        if rk != sorted(rk):
            r.fail('Hill order: carbon, hydrogen, then alphabetical', 'C15/hill-order', **ctx)
    # additivity: plain notation by juxtaposition, separated notations by joining with the separator
    s2 = pt.write_chem_formula(c2, sep=sep)
    if sep == '' or (s and s2):
        joined = s + s2 if sep == '' else s + sep + s2
        try:
            both = pt.parse_chem_formula(joined, sep=sep)
            p1 = pt.parse_chem_formula(s, sep=sep)
            p2 = pt.parse_chem_formula(s2, sep=sep)
        except ValueError as e:
            r.fail('concatenation of two written formulas parses', 'C15/additivity/parse-raises', error=str(e)[:150], second=s2, **ctx)
            return r
        tot = dict(exp)
        for k, v in c2.items():
            tot[k] = tot.get(k, 0) + v
        if not _same_comp(both, tot):
            r.fail('the composition of a concatenation is the sum of the compositions', 'C15/additivity/wrong' + ('/separated' if sep else ''),
                   second=s2, got=both, expected=tot, **ctx)
        elif sep and tot:
            try:
                m_join = pt.chem_mass(joined, sep=sep)
                m_sum = pt.chem_mass(s, sep=sep) + pt.chem_mass(s2, sep=sep)
                if abs(m_join - m_sum) > 1e-9 * (sum(abs(v) for v in tot.values()) * 250 + sum(abs(v) for v in p1.values()) * 250 + 1):
                    r.fail('the mass of a concatenation is the sum of the masses', 'C15/additivity/mass/separated', second=s2, got=m_join,
                           expected=m_sum, **ctx)
            except ValueError:
                pass
    return r


# ---- glycans -----------------------------------------------------------------------------------

@lru_cache(None)
def _glycan_names():
    names = {}
    for e in obo.monosaccharides():
        names[e['name']] = e
        for s in e['synonyms']:
            names[s] = e
    return names


_COUNT = re.compile(r'[+\-.0-9]*')


def tokenisations(s, limit=3, explicit=False):
    """all ways to read s as (name, count)* with names/synonyms of the table; stops after `limit`; explicit: every name is
    followed by its count"""
    names = sorted(_glycan_names(), key=len, reverse=True)
    out = []

    def rec(pos, acc):
        if len(out) >= limit:
            return
        if pos == len(s):
            out.append(list(acc))
            return
        for nm in names:
            if s.startswith(nm, pos):
                p = pos + len(nm)
                m = _COUNT.match(s, p)
                cnt = m.group(0)
                # the count is maximal (a parser reading count characters cannot stop early)
                if cnt == '':
                    if explicit:
                        continue
                    val = 1
                else:
                    try:
                        val = float(cnt) if ('.' in cnt) else int(cnt)
                    except ValueError:
                        continue
                acc.append((nm, val))
                rec(p + len(cnt), acc)
                acc.pop()
    rec(0, [])
    return out


def greedy_reading(s):
    """longest-name-first reading without backtracking; None when it gets stuck"""
    names = sorted(_glycan_names(), key=len, reverse=True)
    pos, out = 0, []
    while pos < len(s):
        for nm in names:
            if s.startswith(nm, pos):
                pos += len(nm)
                cnt = _COUNT.match(s, pos).group(0)
                pos += len(cnt)
                out.append(nm)
                break
        else:
            return None
    return out


def check_glycan(case) -> Result:
    import peptacular as pt
    r = Result()
    d = {k: v for k, v in case['glycan']}
    names = _glycan_names()
    s = pt.write_glycan_formula(d)
    toks = tokenisations(s)
    unamb = len(toks) == 1
    r.nontrivial = len(d) >= 2 and unamb
    r.classes = [f'n={min(len(d), 4)}'] + (['unambiguous'] if unamb else ['ambiguous']) + \
        (['synonym'] if any(k != names[k]['name'] for k in d) else []) + \
        (['float'] if any(isinstance(v, float) for v in d.values()) else []) + (['negative'] if any(v < 0 for v in d.values()) else [])
    ctx = dict(glycan=d, written=s)
    if unamb:
        try:
            back = pt.parse_glycan_formula(s)
        except ValueError as e:
            sig = 'C15/glycan/parse-raises'
            if greedy_reading(s) != [nm for nm, _v in toks[0]]:
                sig = 'C15/glycan/longest-name-first-reading-fails-on-unambiguous-formula'
            r.fail('an unambiguous written glycan formula parses', sig, error=str(e)[:150], **ctx)
            back = None
        if back is not None and not _same_comp_typed(back, d):
            r.fail('parse(write(d)) == d for unambiguous glycan formulas', 'C15/glycan/roundtrip', got=back, **ctx)
        if back is not None and d:
            first = dict(back)
            back['Zz'] = 1
            again = pt.parse_glycan_formula(s)
            if not _same_comp_typed(again, first):
                r.fail('parsing the same glycan string twice gives the same result', 'C15/glycan/parse-result-shared-between-calls', **ctx)
    else:
        # several readings (names may stand without a count): what the parser returns is one of them, and when every name is
        # required to carry its count - as the writer always does - and that leaves one reading, it is that one
        many = tokenisations(s, limit=200)
        if len(many) < 200:
            def as_dict(tk):
                o = {}
                for nm, v in tk:
                    o[nm] = o.get(nm, 0) + v
                return o
            try:
                back = pt.parse_glycan_formula(s)
            except ValueError:
                back = None
            if back is not None:
                if not any(_same_comp_typed(back, as_dict(tk)) or _same_comp(back, as_dict(tk)) and all(v != 0 for v in back.values())
                           for tk in many):
                    r.fail('the parse of a glycan formula is one of its readings', 'C15/glycan/parse-is-no-reading', got=back,
                           readings=[as_dict(tk) for tk in many[:4]], **ctx)
                explicit = tokenisations(s, limit=3, explicit=True)
                if len(explicit) == 1:
                    r.classes.append('one-reading-with-explicit-counts')
                    if not _same_comp_typed(back, d):
                        r.fail('parse(write(d)) == d when one reading gives every name its count', 'C15/glycan/roundtrip/explicit-count-reading',
                               got=back, **ctx)
    # separated form is always unambiguous
    if d:
        s_sep = pt.write_glycan_formula(d, sep=' ')
        try:
            back = pt.parse_glycan_formula(s_sep, sep=' ')
            if not _same_comp_typed(back, d):
                r.fail('separated glycan formula round trip', 'C15/glycan/roundtrip-sep', got=back, written_sep=s_sep, **ctx)
        except ValueError as e:
            r.fail('separated glycan formula parses', 'C15/glycan/parse-sep-raises', error=str(e)[:150], **ctx)
    # composition and mass are count-weighted sums over the table entries, names and synonyms alike
    exp_comp = {}
    for k, v in d.items():
        for el, n in names[k]['comp'].items():
            exp_comp[el] = exp_comp.get(el, 0) + n * v
    try:
        got = pt.glycan_comp(d)
        if not _same_comp(got, exp_comp):
            r.fail('glycan composition is the count-weighted sum over monosaccharides', 'C15/glycan/comp', got=got, expected=exp_comp, **ctx)
    except ValueError as e:
        r.fail('glycan composition of table names', 'C15/glycan/comp-raises', error=str(e)[:150], **ctx)
    for mono in (True, False):
        exp_m = sum(v * (names[k]['mono'] if mono else names[k]['avg']) for k, v in d.items())
        try:
            got = pt.glycan_mass(d, monoisotopic=mono)
            if abs(got - exp_m) > 1e-9 * (1 + sum(abs(v) for v in d.values()) * 400):
                r.fail('glycan mass is the count-weighted sum of tabulated masses', 'C15/glycan/mass', mono=mono, got=got, expected=exp_m, **ctx)
        except ValueError as e:
            r.fail('glycan mass of table names', 'C15/glycan/mass-raises', error=str(e)[:150], **ctx)
    # the chemical formula written for the glycan weighs what the glycan weighs (counts of any magnitude survive the writing)
    if d:
        try:
            cf = pt.convert_glycan_formula_to_chem_formula(d)
            m_cf = pt.chem_mass(cf)
            exp_m = sum(v * names[k]['mono'] for k, v in d.items())
            if abs(m_cf - exp_m) > 1e-6 * (1 + sum(abs(v) for v in d.values()) * 400):
                r.fail('the chemical formula written for a glycan has the mass of the glycan', 'C15/glycan/chem-formula-mass', formula=cf, got=m_cf,
                       expected=exp_m, **ctx)
        except ValueError as e:
            r.fail('the chemical formula written for a glycan parses', 'C15/glycan/chem-formula-raises', error=str(e)[:150], **ctx)
    # names and synonyms are interchangeable
    canon = {}
    for k, v in d.items():
        canon[names[k]['name']] = canon.get(names[k]['name'], 0) + v
    try:
        if not _same_comp(pt.glycan_comp(canon), exp_comp):
            r.fail('names and synonyms are interchangeable', 'C15/glycan/synonym-comp', **ctx)
    except ValueError:
        pass
    if unamb:
        try:
            got = pt.glycan_comp(s)
            if not _same_comp(got, exp_comp):
                r.fail('composition of a glycan formula string is the count-weighted sum over monosaccharides', 'C15/glycan/comp-string',
                       got=got, expected=exp_comp, **ctx)
            if d:
                cf = pt.convert_glycan_formula_to_chem_formula(s)
                if not _same_comp(pt.parse_chem_formula(cf), exp_comp):
                    r.fail('the chemical formula written for a glycan formula string has the composition of the glycan',
                           'C15/glycan/chem-formula-of-string', formula=cf, expected=exp_comp, **ctx)
        except ValueError as e:
            if greedy_reading(s) == [nm for nm, _v in toks[0]]:
                r.fail('composition of an unambiguous glycan string', 'C15/glycan/comp-string-raises', error=str(e)[:150], **ctx)
        try:
            m1 = pt.glycan_mass(s)
            m2 = pt.glycan_mass(d)
            if abs(m1 - m2) > 1e-9 * (1 + abs(m2)):
                r.fail('mass of the glycan string equals the mass of the dictionary', 'C15/glycan/mass-string', got=m1, expected=m2, **ctx)
        except ValueError as e:
            sig = 'C15/glycan/mass-string-raises'
            if greedy_reading(s) != [nm for nm, _v in toks[0]]:
                sig = 'C15/glycan/longest-name-first-reading-fails-on-unambiguous-formula'
            r.fail('glycan mass of an unambiguous string', sig, error=str(e)[:150], **ctx)
    return r


# ---- strategies --------------------------------------------------------------------------------

@lru_cache(None)
def _keys():
    t = refchem.read_chem_txt()
    elements = sorted(t)
    isotopes = []
    for sym, rows in t.items():
        for a, _m, _ab in rows:
            if sym == 'H' and a in (2, 3):
                isotopes.append(f'{a}H')
            else:
                isotopes.append(f'{a}{sym}')
    common = ['C', 'H', 'N', 'O', 'S', 'P', 'Ce', 'Co', 'Cl', 'Ca', 'Cu', 'Cs', 'Cr', 'Cd', 'Np', 'Ne', 'Na', 'Ni', 'Nb', 'Nd', 'No',
              'He', 'Hf', 'Hg', 'Ho', 'Se', 'Si', 'Sn', 'Pb', 'Pd', 'Pt', 'Os', 'Fe', 'F', 'I', 'In', 'K', 'Kr', 'B', 'Br', 'Be']
    return elements, isotopes, [c for c in common if c in t]


def chem_strategy():
    elements, isotopes, common = _keys()
    key = st.one_of(st.sampled_from(common), st.sampled_from(common), st.sampled_from(elements), st.sampled_from(isotopes),
                    st.sampled_from(['13C', '15N', '18O', '2H', '34S', 'D', 'T', 'e', 'p', 'n']))
    icount = st.one_of(st.integers(-200, 500), st.integers(-5, 20), st.sampled_from([0, 1, -1]))
    fcount = st.tuples(st.integers(-2000000, 5000000), st.sampled_from([10, 100, 1000, 10000])).map(lambda t: t[0] / t[1])
    count = st.one_of(icount, icount, fcount)
    comp = st.lists(st.tuples(key, count), min_size=0, max_size=7, unique_by=lambda t: t[0]).map(lambda xs: [list(x) for x in xs])
    return st.fixed_dictionaries({'c1': comp, 'c2': comp, 'sep': st.sampled_from(['', '', ' ', '|']), 'hill': st.booleans()})


def glycan_strategy():
    names = sorted(_glycan_names())
    icount = st.integers(-5, 20).filter(lambda x: True)
    fcount = st.tuples(st.integers(-50, 200), st.sampled_from([10, 100])).map(lambda t: t[0] / t[1])
    count = st.one_of(icount, icount, icount, fcount)
    return st.fixed_dictionaries({'glycan': st.lists(st.tuples(st.sampled_from(names), count), min_size=0, max_size=5,
                                                     unique_by=lambda t: t[0]).map(lambda xs: [list(x) for x in xs])})


def glycan_pair_cases():
    """every ordered pair of monosaccharide names / synonyms x small counts: reaches every place where a name, its count and the
    start of the next name together spell a longer name (Neu 5 Ac...)"""
    names = sorted(_glycan_names())
    counts = (1, 2, 5, 12, -1, 2.5)
    for a in names:
        for b in names:
            if a == b:
                continue
            for ca in counts:
                for cb in counts:
                    yield {'glycan': [[a, ca], [b, cb]]}


def glycan_context_cases():
    """the pairs whose longest-name-first reading is not their reading (a name, its count and the start of the next name spell a
    longer name), each with every other name in front and behind and several counts on the second name"""
    names = sorted(_glycan_names())
    special = []
    for a in names:
        for b in names:
            for ca in (1, 2, 5, 12):
                if a != b:
                    s = f'{a}{ca}{b}3'
                    tk = tokenisations(s)
                    if len(tk) == 1 and greedy_reading(s) != [nm for nm, _v in tk[0]]:
                        special.append((a, ca, b))
    for a, ca, b in special:
        for cb in (1, 2, 12, 2.5, -1, 10.25):
            for p in [None] + names:
                for q in [None] + names:
                    present = [x for x in (p, a, b, q) if x]
                    if len(set(present)) < len(present):
                        continue
                    yield {'glycan': ([[p, 2]] if p else []) + [[a, ca], [b, cb]] + ([[q, 3]] if q else [])}


def parts(tier):
    n = 8000 if tier == 'quick' else 400000
    return [
        Part(name='glycan-pairs', kind='enum', check_case=check_glycan, cases=glycan_pair_cases, exhaustive=True, shards=16,
             space='every ordered pair of the 47 monosaccharide names and synonyms x first and second count in {1,2,5,12,-1,2.5}'),
        Part(name='glycan-contexts', kind='enum', check_case=check_glycan, cases=glycan_context_cases, exhaustive=True, shards=16,
             space='every pair of names whose longest-name-first reading is not its only reading x second count in {1,2,12,2.5,-1,10.25} x any other name (or none) in front x any other name (or none) behind'),
        Part(name='chem', kind='hyp', check_case=check_chem, strategy=chem_strategy, examples=n),
        Part(name='glycan', kind='hyp', check_case=check_glycan, strategy=glycan_strategy, examples=n // 2),
    ]
