"""C02 - peptide mass and m/z equal the sum of their physical parts (outside reference)."""
import copy

from hypothesis import strategies as st

from pv import gen, model, obo, refchem, refmass, refmods
from pv.runner import Part, Result

ID = 'C02'
TITLE = 'Peptide mass and m/z equal the sum of their physical parts'
RULE = ('random part: residue string over the 22 unambiguous-mass letters + X, J with modifications of a-priori known mass '
        '(numeric, formula, Unimod, glycan) at every placement, multipliers 1-3, charge -4..6, isotope 0..4, loss, precision, '
        'adduct lists, monoisotopic/average; exhaustive part: every Unimod entry x {mono, avg} x {residue, N-term, static rule, '
        'labile}; non-trivial = a multiplier >= 2, or a non-residue placement, or average mode with a named/formula modification, '
        'or adducts, or negative charge')
ASSUMPTIONS = [
    'reference = pv/refchem.py (NIST literals for 16 elements, the copy of the NIST table pinned in pv/pinned/nist.json for all others - never the table of the tree under test) + tabulated Unimod / monosaccharide masses read by pv/obo.py; in the exhaustive parts the monoisotopic mass of every Unimod entry and monosaccharide is also compared with its composition weighed with those NIST masses (average masses of the upstream tables are taken as given: they are built on other standard atomic weights)',
    'tolerances as stated by the property: 1e-5 Da monoisotopic, 2e-3 Da average (+ half a unit of the requested precision)',
    'two separate adduct brackets are not the documented form: a single comma-separated bracket is generated',
]

KINDS = ('labile', 'static', 'unknown', 'nterm', 'cterm', 'internal', 'intervals', 'charge', 'adducts')


def _tol(mono, precision):
    t = 1e-5 if mono else 2e-3
    if precision is not None:
        t += 0.5 * 10 ** (-precision) + 1e-12
    return t


def check_case(case) -> Result:
    import peptacular as pt
    r = Result()
    pep = case['pep']
    mono, iso, loss, prec = case['mono'], case['isotope'], case['loss'], case['precision']
    charge_arg, adducts_arg = case['charge_arg'], case['adducts_arg']
    s = model.write_pep(pep)
    charge = charge_arg if charge_arg is not None else pep['charge']
    adducts = adducts_arg if adducts_arg is not None else pep['adducts']
    mods = refmass.all_mods(pep)
    placements = [k for k in ('labile', 'static', 'unknown', 'nterm', 'cterm', 'intervals') if pep[k] and
                  (k != 'intervals' or any(iv[3] for iv in pep['intervals']))]
    named = any(refmods.resolve(t)['kind'] in ('unimod', 'formula', 'glycan', 'psimod') for t, _m in mods)
    r.nontrivial = any(m >= 2 for _t, m in mods) or bool(placements) or (not mono and named) or adducts is not None or \
        (charge is not None and charge < 0)
    r.classes = placements + (['internal'] if pep['internal'] else []) + [f'mono={mono}'] + \
        (['adducts'] if adducts is not None else []) + (['neg-charge'] if charge is not None and charge < 0 else []) + \
        (['mult>=2'] if any(m >= 2 for _t, m in mods) else []) + (['precision'] if prec is not None else []) + \
        (['isotope'] if iso else []) + (['loss'] if loss else []) + sorted({refmods.resolve(t)['kind'] for t, _m in mods})
    kw = dict(monoisotopic=mono, isotope=iso, loss=loss, precision=prec)
    if charge_arg is not None:
        kw['charge'] = charge_arg
    if adducts_arg is not None:
        kw['charge_adducts'] = adducts_arg
    ctx = dict(sequence=s, args={k: v for k, v in kw.items()})
    ref = refmass.precursor_mass(pep, mono, charge or 0, adducts, iso, loss)
    got = pt.mass(s, **kw)
    tol = _tol(mono, prec)
    if not isinstance(got, (int, float)):
        r.fail('mass is a number', 'C02/mass/type', got=str(got), **ctx)
        return r
    if abs(got - ref) > tol:
        sig = 'C02/mass/wrong' + ('' if mono else '/average')
        if adducts is not None:
            quirk = ref - refmass.adduct_mass(adducts, mono) + refmass.adduct_mass_library_quirk(adducts, mono)
            if abs(got - quirk) <= tol:
                sig = 'C02/mass/adduct-electrons-not-multiplied-by-ion-count'
            else:
                sig += '/adducts'
        r.fail('mass = residues + water + modifications x multiplier + charge carriers + isotope x neutron + loss', sig,
               expected=ref, got=got, diff=got - ref, **ctx)
    if prec is not None and round(got, prec) != got:
        r.fail('a requested precision is applied', 'C02/mass/precision-not-applied', got=got, **ctx)
    # m/z
    if charge is not None and charge > 0:
        kz = dict(kw)
        kz.pop('precision')
        mz = pt.mz(s, precision=prec, **kz)
        m_full = pt.mass(s, **{**kw, 'precision': None})
        if abs(mz - m_full / charge) > (0.5 * 10 ** (-prec) + 1e-12 if prec is not None else 1e-9):
            r.fail('for a positive charge m/z is the mass divided by the charge', 'C02/mz/not-mass-over-charge', mz=mz,
                   mass=m_full, charge=charge, **ctx)
        if abs(mz - ref / charge) > tol / charge + (0.5 * 10 ** (-prec) if prec is not None else 0):
            sig = 'C02/mz/wrong'
            if adducts is not None:
                quirk = ref - refmass.adduct_mass(adducts, mono) + refmass.adduct_mass_library_quirk(adducts, mono)
                if abs(mz - quirk / charge) <= tol / charge + (0.5 * 10 ** (-prec) if prec is not None else 0):
                    sig = 'C02/mass/adduct-electrons-not-multiplied-by-ion-count'
            r.fail('m/z equals the reference', sig, expected=ref / charge, got=mz, **ctx)
    # annotation input == string input
    got_a = pt.mass(pt.parse(s), **kw)
    if got_a != got:
        r.fail('annotation input gives the same mass as string input', 'C02/mass/annotation-input-differs', string=got, annotation=got_a, **ctx)
    # labile modifications count for the precursor only
    if pep['labile'] and case['labile_probe']:
        q = copy.deepcopy(pep)
        q['labile'] = []
        s0 = model.write_pep(q)
        lab = refmods.mods_mass(pep['labile'], mono)
        d = pt.mass(s, monoisotopic=mono, charge=0) - pt.mass(s0, monoisotopic=mono, charge=0)
        if abs(d - lab) > _tol(mono, None):
            r.fail('labile modifications are part of the precursor mass', 'C02/labile/not-in-precursor', expected=lab, got=d, **ctx)
        z = case.get('labile_charge', 1)
        for ion in ('n', 'a', 'b', 'c', 'x', 'y', 'z', 'ax', 'ay', 'az', 'bx', 'by', 'bz', 'cx', 'cy', 'cz', 'i'):
            if ion == 'n':
                continue  # the neutral peptide is the precursor without charge carriers
            d = pt.mass(s, monoisotopic=mono, charge=z, ion_type=ion) - pt.mass(s0, monoisotopic=mono, charge=z, ion_type=ion)
            if abs(d) > 1e-9:
                r.fail('labile modifications count for the precursor only', f'C02/labile/counted-for-{ion}-ion', got=d, charge=z, **ctx)
    return r


def check_mod_mass(case) -> Result:
    """mod_mass / chem_mass individually against the reference"""
    import peptacular as pt
    from peptacular.proforma.proforma_dataclasses import Mod
    r = Result()
    text, mult = case['mod']
    ref = refmods.resolve(text)
    r.nontrivial = mult >= 2 or ref['kind'] != 'number'
    r.classes = [ref['kind']] + (['mult>=2'] if mult >= 2 else [])
    for mono in (True, False):
        exp = ref['mono' if mono else 'avg'] * mult
        got = pt.mod_mass(Mod(text, mult), monoisotopic=mono)
        if abs(got - exp) > (1e-5 if mono else 2e-3) * mult:
            r.fail('mod_mass = mass of the modification x multiplier', f'C02/mod_mass/{ref["kind"]}' + ('' if mono else '/average'),
                   mod=text, mult=mult, expected=exp, got=got)
        # a requested precision rounds the result - the mass of the modification times its multiplier - once
        prec = case.get('precision')
        if prec is not None:
            gp = pt.mod_mass(Mod(text, mult), monoisotopic=mono, precision=prec)
            full = pt.mod_mass(Mod(text, mult), monoisotopic=mono)
            if abs(gp - full) > 0.5 * 10 ** (-prec) + 1e-9:
                unit = pt.mod_mass(Mod(text, 1), monoisotopic=mono, precision=prec)
                sig = f'C02/mod_mass/precision/{ref["kind"]}'
                if abs(gp - unit * mult) <= 1e-9 * max(1.0, abs(gp)):
                    sig = 'C02/mod_mass/precision-applied-before-the-multiplier'
                r.fail('with a precision, mod_mass is the mass times the multiplier, rounded', sig, mod=text, mult=mult, precision=prec,
                       got=gp, unrounded=full, mono=mono)
        if ref['comp'] is not None and ref['kind'] in ('formula',):
            c = {k: v for k, v in ref['comp'].items()}
            got = pt.chem_mass(c, monoisotopic=mono)
            exp = refchem.comp_mass(c, mono)
            if abs(got - exp) > 1e-9 * (1 + sum(abs(v) for v in c.values()) * 100):
                r.fail('chem_mass equals the reference mass of the composition', 'C02/chem_mass' + ('' if mono else '/average'),
                       composition=c, expected=exp, got=got)
    return r


def check_unimod_entry(case) -> Result:
    import peptacular as pt
    r = Result()
    e = obo.unimod()[case['index']]
    name = e['name']
    r.nontrivial = True
    r.classes = ['unimod-entry']
    if not gen._bal(name):
        return r
    if name in {x['name'] for x in obo.psimod()}:
        name = 'U:' + name  # the bare spelling of these two names also denotes a PSI-MOD entry (resolved first)
    base = {True: refmass.neutral_mass(model.empty_pep('PEPTK'), True), False: refmass.neutral_mass(model.empty_pep('PEPTK'), False)}
    forms = {'residue': f'PEPT[{name}]K', 'nterm': f'[{name}]-PEPTK', 'labile': '{' + name + '}PEPTK'}
    if '>' not in name and '@' not in name:
        forms['static'] = f'<[{name}]@T>PEPTK'
        forms['static-cterm'] = f'<[{name}]@C-Term>PEPTK'
    for mono in (True, False):
        exp = base[mono] + (e['mono'] if mono else e['avg'])
        for where, s in forms.items():
            got = pt.mass(s, monoisotopic=mono)
            if abs(got - exp) > (1e-5 if mono else 2e-3):
                r.fail('every Unimod entry weighs its tabulated mass wherever it is written',
                       f'C02/unimod-entry/{where}' + ('' if mono else '/average'), entry=name, sequence=s, expected=exp, got=got)
    # the outside value: the entry's composition weighed with the NIST masses (monoisotopic; the average masses of the upstream
    # table are built on other standard atomic weights and are taken as given)
    if e['comp'] is not None:
        try:
            nist = refchem.comp_mass(e['comp'], True)
        except KeyError:
            nist = None
        if nist is not None:
            r.classes.append('composition-weighed')
            got = pt.mass(forms['residue']) - base[True]
            if abs(got - nist) > 1e-5:
                r.fail('every Unimod entry agrees with a reference built from NIST atomic masses to within 1e-5',
                       f'C02/unimod-entry/monoisotopic-mass-differs-from-NIST-composition/{e["name"]}', entry=e['name'], composition=e['comp'],
                       expected=nist, got=got, tabulated=e['mono'], diff=got - nist)
    return r


def check_sugar(case) -> Result:
    """every bundled monosaccharide name and synonym: tabulated masses, and the composition weighed with NIST masses"""
    import peptacular as pt
    r = Result()
    nm, cnt = case['name'], case['count']
    r.nontrivial = True
    r.classes = ['monosaccharide', f'count={cnt}']
    e = [x for x in obo.monosaccharides() if nm == x['name'] or nm in x['synonyms']][0]
    base = {m: refmass.neutral_mass(model.empty_pep('PEPTK'), m) for m in (True, False)}
    nist = refchem.comp_mass(e['comp'], True) * cnt
    for where, s in (('residue', f'PEPT[Glycan:{nm}{cnt}]K'), ('nterm', f'[Glycan:{nm}{cnt}]-PEPTK'), ('labile', '{Glycan:' + f'{nm}{cnt}' + '}PEPTK')):
        for mono in (True, False):
            got = pt.mass(s, monoisotopic=mono) - base[mono]
            exp = (e['mono'] if mono else e['avg']) * cnt
            if abs(got - exp) > (1e-5 if mono else 2e-3):
                r.fail('a monosaccharide weighs its tabulated mass times its count', f'C02/monosaccharide/{where}' + ('' if mono else '/average'),
                       sequence=s, expected=exp, got=got)
            if mono and abs(got - nist) > 1e-5:
                r.fail('monosaccharide masses agree with a reference built from NIST atomic masses to within 1e-5',
                       f'C02/monosaccharide/monoisotopic-mass-differs-from-NIST-composition/{e["name"]}', sequence=s, expected=nist, got=got)
    return r


def sugar_cases():
    for e in obo.monosaccharides():
        for nm in [e['name']] + list(e['synonyms']):
            for cnt in (1, 2, 5):
                yield {'name': nm, 'count': cnt}


def check_tables(case) -> Result:
    """literal NIST values vs bundled chem.txt vs the library's loaded tables"""
    import peptacular as pt
    r = Result()
    r.nontrivial = True
    sym = case['symbol']
    r.classes = ['table']
    for (s, a, fld, lit, fil) in refchem.crosscheck():
        if s == sym:
            r.fail('bundled element table agrees with the NIST literals', f'C02/table/chem.txt/{s}{a}/{fld}', literal=lit, file=fil)
    if sym in ('e', 'p', 'n'):
        lib = {'e': pt.ELECTRON_MASS, 'p': pt.PROTON_MASS, 'n': pt.NEUTRON_MASS}[sym]
        if abs(lib - refchem.atom_mass(sym)) > 1e-12:
            r.fail('particle masses', f'C02/table/particle/{sym}', library=lib, reference=refchem.atom_mass(sym))
        return r
    rows = refchem.table()[sym]
    tol = 1e-9 if sym in refchem.ISOTOPES else 1e-7
    if any(ab > 0 for _a, _m, ab in rows):
        m, a = refchem.mono_mass(sym), refchem.avg_mass(sym)
        if abs(pt.chem_mass({sym: 1}) - m) > tol:
            r.fail('monoisotopic element mass', f'C02/table/mono/{sym}', library=pt.chem_mass({sym: 1}), reference=m)
        if abs(pt.chem_mass({sym: 1}, monoisotopic=False) - a) > tol:
            r.fail('average element mass', f'C02/table/avg/{sym}', library=pt.chem_mass({sym: 1}, monoisotopic=False), reference=a)
        # ... and as a modification written with a chemical formula
        d = pt.mass(f'PEPT[Formula:{sym}2]K') - pt.mass('PEPTK')
        if abs(d - 2 * m) > 1e-6:
            r.fail('a formula modification weighs its atoms', f'C02/table/formula-mod/{sym}', got=d, expected=2 * m)
    for aa, mm, _ab in rows:
        key = f'{aa}{sym}'
        got = pt.chem_mass({key: 1})
        if abs(got - mm) > tol:
            r.fail('isotope mass', f'C02/table/isotope/{key}', library=got, reference=mm)
    return r


def check_residue(case) -> Result:
    import peptacular as pt
    r = Result()
    r.nontrivial = True
    aa = case['aa']
    r.classes = ['residue']
    for mono in (True, False):
        exp = refchem.residue_mass(aa, mono) + refchem.comp_mass(refchem.WATER, mono)
        got = pt.mass(aa, monoisotopic=mono)
        if abs(got - exp) > 1e-9:
            r.fail('residue masses', f'C02/residue/{aa}' + ('' if mono else '/average'), expected=exp, got=got)
    return r


# ---- strategies --------------------------------------------------------------------------------

def strategy():
    one = gen.mass_mod(('num', 'formula', 'unimod', 'glycan'))
    static_text = gen.mass_mod_text(('num', 'formula', 'unimod', 'glycan'), gt_ok=False)
    pm = gen.pep_model(alphabet=gen.AA_MASS, min_len=1, max_len=40, kinds=KINDS, mod_strategy=one,
                       mod_list=st.lists(one, min_size=1, max_size=2), allow_empty=False, static_mod_text=static_text, static_max_mult=3)
    add = gen.adduct_text()

    @st.composite
    def strat(draw):
        pep = draw(pm)
        if pep['charge'] is not None:
            pep['charge'] = max(-4, min(6, pep['charge']))
        return {
            'pep': pep, 'mono': draw(st.booleans()),
            'charge_arg': draw(st.one_of(st.none(), st.none(), st.integers(-4, 6))),
            'adducts_arg': draw(st.one_of(st.none(), st.none(), st.none(), add)),
            'isotope': draw(st.sampled_from([0, 0, 1, 2, 3, 4])),
            'loss': draw(st.one_of(st.just(0.0), st.just(0.0), st.floats(-500, 500, allow_nan=False), st.sampled_from([-18.01056, -17.02655]))),
            'precision': draw(st.one_of(st.none(), st.none(), st.integers(0, 6))),
            'labile_probe': draw(st.booleans()), 'labile_charge': draw(st.sampled_from([1, 1, 2, 3, 0, -1])),
        }
    return strat()


def mod_strategy():
    return st.fixed_dictionaries({'mod': gen.mass_mod(('num', 'formula', 'unimod', 'glycan', 'obs', 'shift')),
                                  'precision': st.sampled_from([None, 0, 1, 2, 3, 4])})


def parts(tier):
    n = 6000 if tier == 'quick' else 300000
    elements = sorted(refchem.table()) + ['e', 'p', 'n']
    return [
        Part(name='tables', kind='enum', check_case=check_tables, cases=lambda: [{'symbol': s} for s in elements], shards=1,
             exhaustive=True, space='all 118 elements of the NIST table (16 with literals in pv/refchem.py, the others from the copy pinned in pv/pinned/nist.json) + e/p/n: reference vs library tables, every isotope, and as Formula: modification'),
        Part(name='residues', kind='enum', check_case=check_residue, cases=lambda: [{'aa': a} for a in refchem.MASS_LETTERS], shards=1,
             exhaustive=True, space='24 residue letters x {mono, avg}'),
        Part(name='unimod-entries', kind='enum', check_case=check_unimod_entry,
             cases=lambda: [{'index': i} for i in range(len(obo.unimod()))], shards=16, exhaustive=True,
             space='all 1,522 Unimod entries x {mono, avg} x {residue, N-term, labile, static residue rule, static C-Term rule}'),
        Part(name='monosaccharides', kind='enum', check_case=check_sugar, cases=sugar_cases, shards=4, exhaustive=True,
             space='every bundled monosaccharide name and synonym x count {1,2,5} x {residue, N-term, labile} x {mono, avg}; monoisotopic also against the composition weighed with NIST masses'),
        Part(name='mass', kind='hyp', check_case=check_case, strategy=strategy, examples=n),
        Part(name='mod-mass', kind='hyp', check_case=check_mod_mass, strategy=mod_strategy, examples=n // 3),
    ]
