"""C13 - static and variable modification builders produce exactly the intended forms."""
import copy
import itertools
import re
from collections import Counter

from hypothesis import strategies as st

from pv import model
from pv.runner import Part, Result

ID = 'C13'
TITLE = 'Static and variable modification builders produce exactly the intended forms'
RULE = ('case = residue string of length 1..10 with pre-existing residue/terminal modifications x 1-3 rules (single letter, character '
        'class, consuming look-around or two-letter literal targets; sites recomputed by character logic) with 1-3 alternative groups x '
        'optional N-/C-terminal rules with or without residue condition x max_mods 0..4 x mode x return type; non-trivial = at least two '
        'eligible sites and (two or more groups, or a pre-modified site, or a terminal rule)')
ASSUMPTIONS = [
    'only consuming target patterns are generated (a zero-width target has no documented residue); sites are computed by character logic',
    'group tokens are mostly fresh; about one group in six repeats an earlier group or the modifications a site already carries - a form reachable in two ways is still one form (expected set, not multiset)',
    'static overwrite: the pre-existing modifications of a site are replaced once, every rule matching the site contributes (not last-rule-wins)',
    'terminal rules do not count against max_mods (as the documented examples show)',
    'append / overwrite variable modes: only the weaker clauses the property lists are asserted',
]

# target = ['let', 'P'] | ['cls', 'ST'] | ['lb', 'A', 'X'] (X preceded by A) | ['la', 'X', 'A'] (X followed by A) | ['lit', 'XY']


def t_regex(t):
    k = t[0]
    if k == 'let':
        return t[1]
    if k == 'cls':
        return f'[{t[1]}]'
    if k == 'lb':
        return f'(?<={t[1]}){t[2]}'
    if k == 'la':
        return f'{t[1]}(?={t[2]})'
    if k == 'lit':
        return t[1]
    raise ValueError(t)


def t_sites(seq, t):
    n = len(seq)
    k = t[0]
    if k == 'let':
        return [i for i in range(n) if seq[i] == t[1]]
    if k == 'cls':
        return [i for i in range(n) if seq[i] in t[1]]
    if k == 'lb':
        return [i for i in range(1, n) if seq[i] == t[2] and seq[i - 1] == t[1]]
    if k == 'la':
        return [i for i in range(n - 1) if seq[i] == t[1] and seq[i + 1] == t[2]]
    if k == 'lit':
        return [i for i in range(n - 1) if seq[i] == t[1][0] and seq[i + 1] == t[1][1]]
    raise ValueError(t)


def _term_applies(seq, cond, which):
    """cond None = unconditional; else a target that must match at the terminal residue"""
    if not seq:
        return False
    if cond is None:
        return True
    idx = 0 if which == 'n' else len(seq) - 1
    return idx in t_sites(seq, cond)


def _mods(tokens):
    return [[t, 1] for t in tokens]


def _key(p):
    """canonical hashable form of a model (order of mods at a position matters for exact forms)"""
    return repr(model.expected(p))


def check_static(case) -> Result:
    import peptacular as pt
    r = Result()
    pep, rules, mode = case['pep'], case['rules'], case['mode']
    seq = pep['seq']
    n = len(seq)
    s = model.write_pep(pep)
    internal = {i: list(ms) for i, ms in pep['internal']}
    premod = set(internal)
    exp = copy.deepcopy(pep)
    new_internal = {i: list(ms) for i, ms in internal.items()}
    matched = set()
    replaced = set()  # overwrite replaces the PRE-EXISTING modifications once; every matching rule's modifications stay
    for tgt, groups in rules:
        ms = _mods(groups[0])
        for i in t_sites(seq, tgt):
            matched.add(i)
            if i in premod:
                if mode == 'overwrite':
                    new_internal[i] = (new_internal[i] if i in replaced else []) + list(ms)
                    replaced.add(i)
                elif mode == 'append':
                    new_internal[i] = new_internal[i] + list(ms)
            else:
                new_internal[i] = new_internal.get(i, []) + list(ms)
    exp['internal'] = sorted([[i, ms] for i, ms in new_internal.items() if ms])
    for which, key in (('n', 'nterm'), ('c', 'cterm')):
        for cond, groups in case[key + '_rules']:
            if not _term_applies(seq, cond, which):
                continue
            ms = _mods(groups[0])
            if pep[key]:
                if mode == 'overwrite':
                    exp[key] = (exp[key] if key in replaced else []) + list(ms)
                    replaced.add(key)
                elif mode == 'append':
                    exp[key] = exp[key] + list(ms)
            else:
                exp[key] = exp[key] + list(ms)
    form = case.get('form', 'plain')
    imods = {t_regex(t): _vals([g for g in groups[0]], form if form != 'scalar' else 'number') for t, groups in rules}
    nt = _term_arg(case['nterm_rules'], static=True, form=form)
    ct = _term_arg(case['cterm_rules'], static=True, form=form)
    eligible = [i for i in matched if i not in premod]
    r.nontrivial = len(matched) >= 2 and (bool(premod & matched) or bool(case['nterm_rules'] or case['cterm_rules']) or len(rules) >= 2)
    r.classes = [f'mode={mode}', f'rules={len(rules)}'] + (['premod-site-matched'] if premod & matched else []) + \
        (['terminal-rule'] if case['nterm_rules'] or case['cterm_rules'] else []) + sorted({t[0] for t, _g in rules})
    ctx = dict(sequence=s, internal_mods=repr(imods), nterm_mods=repr(nt), cterm_mods=repr(ct), mode=mode, form=form)
    out = pt.apply_static_mods(s, imods or None, nterm_mods=nt, cterm_mods=ct, mode=mode)
    try:
        obs = model.project(pt.parse(out))
    except ValueError as e:
        r.fail('the result parses', 'C13/static/result-does-not-parse', result=out, error=str(e)[:100], **ctx)
        return r
    expp = model.expected(exp)
    if obs != expp:
        fields = model.diff_fields(expp, obs)
        r.fail('static modifications go on every matched residue (or terminus) and on no other, respecting the conflict mode',
               f'C13/static/{mode}/' + '+'.join(fields), result=out, expected={f: expp[f] for f in fields}, got={f: obs[f] for f in fields}, **ctx)
    out_a = pt.apply_static_mods(pt.parse(s), imods or None, nterm_mods=nt, cterm_mods=ct, mode=mode, return_type='annotation')
    if out_a.serialize() != out:
        r.fail('str and annotation outputs coincide', 'C13/static/return-types-differ', string=out, annotation=out_a.serialize(), **ctx)
    if mode == 'skip':
        again = pt.apply_static_mods(out, imods or None, nterm_mods=nt, cterm_mods=ct, mode='skip')
        if again != out:
            r.fail('applying static modifications twice in skip mode changes nothing more', 'C13/static/skip-not-idempotent', once=out,
                   twice=again, **ctx)
    return r


def _val(tok, form):
    """how a modification value is handed to the library: as written, as a number (numeric tokens), or as a Mod object"""
    import peptacular as pt
    v = tok
    if form in ('number', 'mod') and re.fullmatch(r'-?[0-9]+\.[0-9]+', tok):
        v = float(tok)
    if form == 'mod':
        v = pt.Mod(v, 1)
    return v


def _vals(obj, form):
    if isinstance(obj, list):
        return [_vals(x, form) for x in obj]
    return _val(obj, form)


def _term_arg(rules, static=False, form='plain'):
    arg = _term_arg_plain(rules, static)
    if arg is None or form == 'plain':
        return arg
    if form == 'scalar':
        # a single unconditional modification may be given as a bare value
        if isinstance(arg, list) and len(arg) == 1 and (static or (isinstance(arg[0], list) and len(arg[0]) == 1)):
            return _val(arg[0] if static else arg[0][0], 'number')
        return arg
    if isinstance(arg, dict):
        return {k: _vals(v, form) for k, v in arg.items()}
    return _vals(arg, form)


def _term_arg_plain(rules, static=False):
    """library argument for terminal rules: None, a bare list (unconditional) or a dict regex -> groups"""
    if not rules:
        return None
    if len(rules) == 1 and rules[0][0] is None and len(rules[0][1]) % 2 == 1:
        # a single unconditional rule may be given as a bare list: of modifications (static) / of groups (variable)
        return list(rules[0][1][0]) if static else [list(g) for g in rules[0][1]]
    d = {}
    for cond, groups in rules:
        key = '' if cond is None else t_regex(cond)
        d[key] = [list(g) for g in groups] if not static else list(groups[0])
    return d


def check_variable(case) -> Result:
    import peptacular as pt
    r = Result()
    pep, rules, mode, max_mods = case['pep'], case['rules'], case['mode'], case['max_mods']
    seq = pep['seq']
    s = model.write_pep(pep)
    internal = {i: list(ms) for i, ms in pep['internal']}
    premod = set(internal)
    offers = {}
    for tgt, groups in rules:
        for i in t_sites(seq, tgt):
            for g in groups:
                offers.setdefault(i, []).append(list(g))
    eligible = sorted(i for i in offers if i not in premod)
    nt_alts = [list(g) for cond, groups in case['nterm_rules'] if _term_applies(seq, cond, 'n') for g in groups]
    ct_alts = [list(g) for cond, groups in case['cterm_rules'] if _term_applies(seq, cond, 'c') for g in groups]
    both_terms = bool(nt_alts) and bool(ct_alts) and (mode != 'skip' or (not pep['nterm'] and not pep['cterm']))
    r.nontrivial = len(eligible) >= 2 and (any(len(offers[i]) >= 2 for i in eligible) or bool(premod & set(offers)) or bool(nt_alts or ct_alts))
    r.classes = [f'mode={mode}', f'max_mods={max_mods}'] + (['terminal-rule'] if nt_alts or ct_alts else []) + \
        (['both-terminal-rules'] if both_terms else []) + (['premod-site-matched'] if premod & set(offers) else []) + \
        [f'eligible={min(len(eligible), 4)}']
    form = case.get('form', 'plain')
    imods = {t_regex(t): _vals([list(g) for g in groups], form if form != 'scalar' else 'number') for t, groups in rules}
    nt = _term_arg(case['nterm_rules'], form=form)
    ct = _term_arg(case['cterm_rules'], form=form)

    # keep the expansion small: lower max_mods until the reference enumeration has at most ~1500 forms (sizes are bounded by
    # case count, not by time; the library re-expands forms when both terminal rules apply, which squares the count)
    def n_forms(mm):
        import math
        tot = 0
        per = [len(offers[i]) for i in eligible]
        # elementary symmetric sums: number of ways to pick k eligible sites with one group each
        e = [1]
        for c in per:
            e = [(e[j] if j < len(e) else 0) + (e[j - 1] * c if j >= 1 else 0) for j in range(len(e) + 1)]
        tot = sum(e[:mm + 1])
        if mode != 'skip':
            # re-modifying an already modified residue is not counted against max_mods: every matched pre-modified site is free
            for i in offers:
                if i in premod:
                    tot *= 1 + len(offers[i])
        if nt_alts and ct_alts:
            return tot * tot * len(nt_alts) * len(ct_alts) // 8 + tot * 4  # the library expands the internal sites twice
        return tot * (1 + len(nt_alts)) * (1 + len(ct_alts))
    while max_mods > 0 and n_forms(max_mods) > 1500:
        max_mods -= 1
    if n_forms(max_mods) > 1500:
        r.classes.append('skipped-too-large')
        return r
    ctx = dict(sequence=s, internal_mods=repr(imods), nterm_mods=repr(nt), cterm_mods=repr(ct), mode=mode, max_mods=max_mods, form=form)
    out = pt.apply_variable_mods(s, imods or None, max_mods, nterm_mods=nt, cterm_mods=ct, mode=mode)
    if not isinstance(out, list):
        r.fail('returns a list', 'C13/variable/type', got=type(out).__name__, **ctx)
        return r
    projs = []
    for o in out:
        try:
            projs.append(model.project(pt.parse(o)))
        except ValueError as e:
            r.fail('every form parses', 'C13/variable/result-does-not-parse', result=o, error=str(e)[:100], **ctx)
            return r
    base = model.expected(pep)
    # clauses for every mode: residues kept, changes confined to matched sites / termini, input form included, no form twice
    for o, p in zip(out, projs):
        if p['seq'] != seq:
            r.fail('original residues intact', f'C13/variable/{mode}/residues-changed', result=o, **ctx)
            break
        for f in ('labile', 'static', 'isotope', 'unknown', 'intervals', 'charge', 'adducts'):
            if p[f] != base[f]:
                r.fail('other annotations intact', f'C13/variable/{mode}/{f}-changed', result=o, **ctx)
                break
        pi, bi = p['internal'] or {}, base['internal'] or {}
        for k in set(pi) | set(bi):
            if pi.get(k) != bi.get(k) and int(k) not in offers:
                r.fail('changes are confined to matched sites', f'C13/variable/{mode}/unmatched-site-changed', result=o, site=int(k), **ctx)
                break
    keys = Counter(repr(p) for p in projs)
    if repr(base) not in keys:
        r.fail('the unmodified (input) form is included', f'C13/variable/{mode}/input-form-missing', n_forms=len(out), **ctx)
    dup = [k for k, v in keys.items() if v > 1]
    if dup:
        sig = f'C13/variable/{mode}/duplicate-form'
        if both_terms:
            sig = 'C13/variable/nterm+cterm-rules-re-expand-forms'
        r.fail('no form twice', sig, duplicates=len(dup), example=[o for o, p in zip(out, projs) if repr(p) == dup[0]][:2], **ctx)
    # exact enumeration in skip mode
    if mode == 'skip':
        expected = Counter()
        nt_opts = [None] + ([a for a in nt_alts] if not pep['nterm'] else [])
        ct_opts = [None] + ([a for a in ct_alts] if not pep['cterm'] else [])
        for k in range(0, min(max_mods, len(eligible)) + 1):
            for sites in itertools.combinations(eligible, k):
                for choice in itertools.product(*[offers[i] for i in sites]):
                    for na in nt_opts:
                        for ca in ct_opts:
                            q = copy.deepcopy(pep)
                            d = {i: list(ms) for i, ms in internal.items()}
                            for i, g in zip(sites, choice):
                                d[i] = _mods(g)
                            q['internal'] = sorted([[i, ms] for i, ms in d.items()])
                            if na is not None:
                                q['nterm'] = _mods(na)
                            if ca is not None:
                                q['cterm'] = _mods(ca)
                            expected[repr(model.expected(q))] = 1  # a form reachable in two ways is still one form
        if keys != expected:
            missing = sum((expected - keys).values())
            extra = sum((keys - expected).values())
            if both_terms and not missing:
                sig = 'C13/variable/nterm+cterm-rules-re-expand-forms'
            elif missing and not extra:
                sig = 'C13/variable/skip/missing-forms'
            elif extra and not missing:
                too_many = any(len([k for k in (p['internal'] or {}) if int(k) not in premod]) > max_mods for p in projs)
                sig = 'C13/variable/skip/more-than-max_mods-sites' if too_many else 'C13/variable/skip/extra-forms'
            else:
                sig = 'C13/variable/skip/wrong-forms'
            r.fail('every form obtainable by modifying at most max_mods additional eligible sites, exactly once, and nothing else', sig,
                   expected=sum(expected.values()), got=len(out), missing=missing, extra=extra, forms=out[:12], **ctx)
    out_a = pt.apply_variable_mods(pt.parse(s), imods or None, max_mods, nterm_mods=nt, cterm_mods=ct, mode=mode, return_type='annotation')
    if [a.serialize() for a in out_a] != out:
        r.fail('str and annotation outputs coincide', 'C13/variable/return-types-differ', **ctx)
    return r


# ---- strategies --------------------------------------------------------------------------------

AL = 'PEKST'


def _targets():
    let = st.sampled_from(AL).map(lambda c: ['let', c])
    cls = st.lists(st.sampled_from(AL), min_size=2, max_size=3, unique=True).map(lambda x: ['cls', ''.join(sorted(x))])
    lb = st.tuples(st.sampled_from(AL), st.sampled_from(AL)).map(lambda t: ['lb', t[0], t[1]])
    la = st.tuples(st.sampled_from(AL), st.sampled_from(AL)).map(lambda t: ['la', t[0], t[1]])
    lit = st.tuples(st.sampled_from(AL), st.sampled_from(AL)).map(lambda t: ['lit', t[0] + t[1]])
    return st.one_of(let, let, cls, lb, la, lit)


def case_strategy(variable):
    tg_random = _targets()

    @st.composite
    def strat(draw):
        seq = draw(st.one_of(st.text(AL, min_size=1, max_size=10 if not variable else 8), st.text('PE', min_size=2, max_size=6)))
        n = len(seq)
        # targets mostly taken from the sequence so that rules actually match
        present = [st.sampled_from(sorted(set(seq))).map(lambda c: ['let', c]),
                   st.tuples(st.sampled_from(sorted(set(seq))), st.sampled_from(AL)).map(lambda t: ['cls', ''.join(sorted(set(t)))] if t[0] != t[1] else ['let', t[0]])]
        if n >= 2:
            pos = st.integers(0, n - 2)
            present += [pos.map(lambda i: ['lb', seq[i], seq[i + 1]]), pos.map(lambda i: ['la', seq[i], seq[i + 1]]),
                        pos.map(lambda i: ['lit', seq[i:i + 2]])]
        tg = st.one_of(st.one_of(*present), st.one_of(*present), st.one_of(*present), tg_random)
        pep = model.empty_pep(seq)
        idx = sorted(set(draw(st.lists(st.integers(0, n - 1), max_size=3))))
        pep['internal'] = [[i, [[f'x{i}', 1]] + ([[f'y{i}', 1]] if draw(st.integers(0, 3)) == 1 else [])] for i in idx]
        if draw(st.integers(0, 3)) == 1:
            pep['nterm'] = [['xn', 1]]
        if draw(st.integers(0, 3)) == 1:
            pep['cterm'] = [['xc', 1]]
        if draw(st.integers(0, 4)) == 1:
            pep['isotope'] = ['13C']
        if draw(st.integers(0, 5)) == 1 and n >= 2:
            pep['intervals'] = [[0, draw(st.integers(1, n)), True, []]]
        counter = [0]
        # groups are normally made of fresh tokens; now and then a group repeats an earlier group or equals the modifications a
        # residue / terminus already carries (the same form is then obtainable in two ways and must still be listed once)
        pool = [[t for t, _m in ms] for _i, ms in pep['internal']] + [[t for t, _m in pep[k]] for k in ('nterm', 'cterm') if pep[k]]

        def groups():
            out = []
            for _ in range(draw(st.integers(1, 3 if variable else 1))):
                if variable and pool and draw(st.integers(0, 5)) == 1:
                    g = list(draw(st.sampled_from(pool)))
                    if g in out:
                        continue
                else:
                    g = []
                    for _ in range(draw(st.sampled_from([1, 1, 2]))):
                        counter[0] += 1
                        g.append(f'm{counter[0]}' if draw(st.integers(0, 4)) else f'{counter[0]}.5')
                    pool.append(list(g))
                out.append(g)
            if not out:
                counter[0] += 1
                out.append([f'm{counter[0]}'])
            return out

        rules = []
        seen = set()
        for _ in range(draw(st.integers(0 if draw(st.integers(0, 5)) == 1 else 1, 3))):
            t = draw(tg)
            if t_regex(t) in seen:
                continue
            seen.add(t_regex(t))
            rules.append([t, groups()])

        def term_rules(which='n'):
            if draw(st.integers(0, 1)) != 1:
                return []
            if draw(st.integers(0, 2)) == 1:
                # two rules that both apply to this terminus: an unconditional one and one conditioned on the terminal residue
                aa = seq[0] if which == 'n' else seq[-1]
                return [[None, groups()], [['let', aa], groups()]]
            out, seen_t = [], set()
            for _ in range(draw(st.integers(1, 2))):
                cond = draw(st.one_of(st.none(), st.none(), tg))
                key = '' if cond is None else t_regex(cond)
                if key in seen_t:
                    continue
                seen_t.add(key)
                out.append([cond, groups()])
            return out

        case = {'pep': pep, 'rules': rules, 'nterm_rules': term_rules('n'), 'cterm_rules': term_rules('c'),
                'mode': draw(st.sampled_from(['skip', 'skip', 'append', 'overwrite'])),
                'form': draw(st.sampled_from(['plain', 'plain', 'number', 'mod', 'scalar', 'scalar']))}
        if variable:
            case['max_mods'] = draw(st.integers(0, 4))
        return case
    return strat()


def parts(tier):
    n = 4000 if tier == 'quick' else 100000
    return [
        Part(name='static', kind='hyp', check_case=check_static, strategy=lambda: case_strategy(False), examples=n // 2),
        Part(name='variable', kind='hyp', check_case=check_variable, strategy=lambda: case_strategy(True), examples=n // 2),
    ]
