"""C19 - combinatorial expansions are exactly the combinatorics of the modified residues."""
import itertools
import math

from hypothesis import strategies as st

from pv import gen, model
from pv.runner import Part, Result

ID = 'C19'
TITLE = 'Combinatorial expansions are exactly the combinatorics of the modified residues'
RULE = ('case = generated annotation of length 1..6 without intervals x one of the four functions x size/repeat in '
        '{None, 1..n} (n+1, n+2 for the non-repeating forms); non-trivial = a repeated residue letter carrying '
        'different modifications plus a global or terminal modification')
ASSUMPTIONS = ['expected results are built on the plain-data model with itertools and compared through the field projection of the parsed results',
               'random part: sizes are lowered until there are at most 3000 results (every item compared); the cells above that - product with 5^5, 6^5, 6^6 results, repeat None included - are run by the part large-products: count and number of distinct results on the whole list, items compared at the first and last 400 positions and at every 97th']

FUNCS = ['permutations', 'combinations', 'combinations_with_replacement', 'product']


def _count(func, n, k):
    if func == 'permutations':
        return math.perm(n, k) if k <= n else 0
    if func == 'combinations':
        return math.comb(n, k) if k <= n else 0
    if func == 'combinations_with_replacement':
        return math.comb(n + k - 1, k)
    return n ** k


def check_case(case) -> Result:
    import peptacular as pt
    r = Result()
    pep, func, size = case['pep'], case['func'], case['size']
    n = len(pep['seq'])
    k = n if size is None else size
    s = model.write_pep(pep)
    comps = model.residues_with_mods(pep)
    letters = {}
    for aa, ms in comps:
        letters.setdefault(aa, set()).add(repr(ms))
    has_wrap = any(pep[x] for x in ('labile', 'static', 'isotope', 'unknown', 'nterm', 'cterm')) or pep['charge'] is not None
    r.nontrivial = any(len(v) >= 2 for v in letters.values()) and has_wrap
    r.classes = [func, f'size={"None" if size is None else ("<=n" if size <= n else ">n")}'] + (['wrapped'] if has_wrap else [])
    it = {'permutations': lambda: itertools.permutations(comps, k),
          'combinations': lambda: itertools.combinations(comps, k),
          'combinations_with_replacement': lambda: itertools.combinations_with_replacement(comps, k),
          'product': lambda: itertools.product(comps, repeat=k)}[func]()
    expected = []
    for t in it:
        q = model.empty_pep(''.join(aa for aa, _ in t))
        for key in ('labile', 'static', 'isotope', 'unknown', 'nterm', 'cterm', 'charge', 'adducts'):
            q[key] = pep[key]
        q['internal'] = [[i, ms] for i, (_aa, ms) in enumerate(t) if ms]
        expected.append(model.expected(q))
    f = getattr(pt, func)
    got = f(s, size)
    ctx = dict(sequence=s, func=func, size=size)
    if not isinstance(got, list):
        r.fail('returns a list', f'C19/{func}/type', got=type(got).__name__, **ctx)
        return r
    if len(got) != _count(func, n, k) or len(got) != len(expected):
        r.fail('number of results', f'C19/{func}/count', expected=_count(func, n, k), got=len(got), **ctx)
        return r
    for i, (g, e) in enumerate(zip(got, expected)):
        try:
            a = pt.parse(g)
        except ValueError as err:
            r.fail('every result parses', f'C19/{func}/result-does-not-parse', index=i, result=g, error=str(err)[:120], **ctx)
            break
        if isinstance(a, pt.MultiProFormaAnnotation):
            r.fail('every result parses to one peptide', f'C19/{func}/result-multi', index=i, result=g, **ctx)
            break
        obs = model.project(a)
        if obs != e:
            fields = model.diff_fields(e, obs)
            wrap = [x for x in fields if x not in ('seq', 'internal')]
            sig = f'C19/{func}/wrapper-changed' if wrap else f'C19/{func}/wrong-order-or-content'
            r.fail('results are, in order, the standard enumeration over residues with their modifications, wrapped in the '
                   'unchanged global, labile and terminal annotations', sig, index=i, result=g, fields=fields,
                   expected={x: e[x] for x in fields}, got={x: obs[x] for x in fields}, **ctx)
            break
    # annotation input gives the same strings
    got2 = f(pt.parse(s), size)
    if got2 != got:
        r.fail('annotation input gives the same result as string input', f'C19/{func}/annotation-input-differs', **ctx)
    return r


def strategy():
    simple = st.tuples(st.sampled_from(['Oxidation', 'Phospho', '+1', '15.995', 'Acetyl', 'Formula:C2', 'INFO:x', 'Obs:+2.5',
                                        'Oxidation|INFO:y', '#g1', 'Methyl#g1(0.5)']), st.sampled_from([1, 1, 2, 3])).map(list)
    pm_any = gen.pep_model(alphabet=gen.AA26, min_len=1, max_len=6,
                           kinds=('labile', 'static', 'isotope', 'unknown', 'nterm', 'cterm', 'internal', 'charge', 'adducts'),
                           allow_empty=False)
    pm_rep = gen.pep_model(alphabet='AK', min_len=2, max_len=6,
                           kinds=('labile', 'static', 'isotope', 'unknown', 'nterm', 'cterm', 'internal', 'charge', 'adducts'),
                           mod_strategy=simple, allow_empty=False, rule_targets='AK')

    @st.composite
    def strat(draw):
        pep = draw(st.one_of(pm_any, pm_rep))
        n = len(pep['seq'])
        func = draw(st.sampled_from(FUNCS))
        if func in ('permutations', 'combinations'):
            size = draw(st.one_of(st.none(), st.integers(1, n + 2)))
        else:
            size = draw(st.one_of(st.none(), st.integers(1, n)))
        # bound the number of results
        k = n if size is None else size
        while _count(func, n, k) > 3000:
            k -= 1
            size = k
        return {'pep': pep, 'func': func, 'size': size}
    return strat()


BIG_PEPTIDES = [
    model.empty_pep('PEKTID') | {'nterm': [['Acetyl', 1]], 'internal': [[2, [['Phospho', 1]]], [4, [['+1.5', 2]]]], 'labile': [['Glycan:Hex', 1]], 'charge': 2},
    model.empty_pep('AKAKSA') | {'cterm': [['Amidated', 1]], 'internal': [[1, [['Methyl', 1]]], [0, [['+1', 1]]]], 'isotope': ['13C'],
                                 'static': [[[['Carbamidomethyl', 1]], ['C']]]},
]


def big_cases():
    for pi in range(len(BIG_PEPTIDES)):
        for n in (5, 6):
            for size in (5, 6, None):
                if size is not None and size > n:
                    continue
                yield {'pep': pi, 'n': n, 'size': size}


def check_big(case) -> Result:
    """product with more than 3000 results: the count on the whole list, and the items at the start, at the end and at evenly
    spread positions against the item the standard enumeration has at that position (index written in base n)"""
    import peptacular as pt
    r = Result()
    pep = dict(BIG_PEPTIDES[case['pep']])
    n, size = case['n'], case['size']
    pep['seq'] = pep['seq'][:n]
    pep['internal'] = [x for x in pep['internal'] if x[0] < n]
    k = n if size is None else size
    s = model.write_pep(pep)
    comps = model.residues_with_mods(pep)
    r.nontrivial = True
    r.classes = ['product', f'n={n}', f'size={size}']
    ctx = dict(sequence=s, func='product', size=size)
    got = pt.product(s, size)
    if not isinstance(got, list) or len(got) != n ** k:
        r.fail('number of results', 'C19/product/count', expected=n ** k, got=len(got) if isinstance(got, list) else None, **ctx)
        return r
    total = n ** k
    idx = sorted(set(list(range(0, 400)) + list(range(total - 400, total)) + list(range(0, total, 97))))
    for i in idx:
        digits, x = [], i
        for _ in range(k):
            digits.append(x % n)
            x //= n
        t = [comps[d] for d in reversed(digits)]
        q = model.empty_pep(''.join(aa for aa, _ in t))
        for key in ('labile', 'static', 'isotope', 'unknown', 'nterm', 'cterm', 'charge', 'adducts'):
            q[key] = pep[key]
        q['internal'] = [[j, ms] for j, (_aa, ms) in enumerate(t) if ms]
        e = model.expected(q)
        try:
            obs = model.project(pt.parse(got[i]))
        except ValueError as err:
            r.fail('every result parses', 'C19/product/result-does-not-parse', index=i, result=got[i], error=str(err)[:120], **ctx)
            break
        if obs != e:
            fields = model.diff_fields(e, obs)
            wrap = [x for x in fields if x not in ('seq', 'internal')]
            r.fail('results are, in order, the standard enumeration over residues with their modifications, wrapped in the unchanged '
                   'global, labile and terminal annotations', 'C19/product/wrapper-changed' if wrap else 'C19/product/wrong-order-or-content',
                   index=i, result=got[i], fields=fields, **ctx)
            break
    if len(set(got)) != len({tuple(repr(c) for c in t) for t in itertools.product(comps, repeat=k)}):
        r.fail('as many distinct results as distinct tuples of residues', 'C19/product/distinct-count', **ctx)
    return r


def parts(tier):
    n = 3000 if tier == 'quick' else 60000
    return [Part(name='expansions', kind='hyp', check_case=check_case, strategy=strategy, examples=n),
            Part(name='large-products', kind='enum', check_case=check_big, cases=big_cases, exhaustive=True, shards=10,
                 space='product of two wrapped peptides cut to n = 5, 6 residues x repeat in {5, 6 (n = 6), None}: 5^5, 6^5, 6^6 results')]
