"""C08 - queries never change their arguments or depend on call history."""
import copy
import json
import random

from hypothesis import strategies as st

from pv import gen, model
from pv.runner import Part, Result

ID = 'C08'
TITLE = 'Queries never change their arguments or depend on call history'
RULE = ('exhaustive part: every ordered pair (A, B) of the registered query calls applied to one shared annotation object, for a fixed '
        'set of feature-complete annotations; random part: sequences of three calls with generated annotations; container part: calls '
        'that take dictionaries / lists (composition, losses, fragment list, modification lists); non-trivial = the annotation carries '
        'labile + terminal modifications + charge and the sequence contains two different calls')
ASSUMPTIONS = [
    'argument snapshots are taken through public properties + serialize() (annotations) or a deep copy (containers)',
    'results are compared after normalisation to plain data; calls that are explicit in-place editors (inplace=True, add_*/pop_*/setters) are not registered',
    'when a step hits a call site listed as a known finding the shared object is restored from a pristine copy so that later steps are still explored',
]


# ---- normalisation -------------------------------------------------------------------------------

def norm(x, depth=0):
    from peptacular.proforma.proforma_parser import ProFormaAnnotation, MultiProFormaAnnotation
    from peptacular.proforma.proforma_dataclasses import Mod, Interval
    from peptacular.fragmentation import Fragment
    if depth > 6:
        return repr(x)
    if isinstance(x, ProFormaAnnotation):
        return ['ANNOT', x.serialize(), model.project(x)]
    if isinstance(x, MultiProFormaAnnotation):
        return ['MULTI', [norm(a, depth + 1) for a in x.annotations], list(x.connections)]
    if isinstance(x, Mod):
        return ['MOD', model.typed(x.val), x.mult]
    if isinstance(x, Interval):
        return ['IV', x.start, x.end, x.ambiguous, norm(x.mods, depth + 1)]
    if isinstance(x, Fragment):
        return ['FRAG', x.ion_type, x.start, x.end, x.charge, x.isotope, x.loss, x.mass, x.mz, x.sequence, x.neutral_mass, x.monoisotopic,
                x.internal, x.unmod_sequence, norm(getattr(x, 'parent_sequence', None), depth + 1)]
    if isinstance(x, dict):
        return ['DICT', sorted(([repr(k), norm(v, depth + 1)] for k, v in x.items()), key=lambda t: t[0])]
    if isinstance(x, (list, tuple)):
        return [norm(v, depth + 1) for v in x]
    if isinstance(x, (str, int, float, bool)) or x is None:
        return x
    if hasattr(x, '__iter__'):
        return [norm(v, depth + 1) for v in x]
    return repr(x)


def snap(a):
    return [a.serialize(), model.project(a, True)]


def scribble(x, depth=0):
    """edit every mutable thing reachable in a result; a result type this function does not know is a harness error (so that a
    new kind of result cannot slip through unedited)"""
    import collections
    from peptacular.proforma.proforma_parser import ProFormaAnnotation, MultiProFormaAnnotation
    from peptacular.proforma.proforma_dataclasses import Mod, Interval
    from peptacular.fragmentation import Fragment
    from peptacular.score import FragmentMatch
    from pv.checks.c20 import _scribble
    from pv.runner import HarnessError
    if depth > 5:
        return
    if x is None or isinstance(x, (str, bytes, int, float, bool, complex, frozenset, range)):
        return
    if isinstance(x, ProFormaAnnotation):
        _scribble(x)
    elif isinstance(x, MultiProFormaAnnotation):
        for a in x.annotations:
            scribble(a, depth + 1)
        x.annotations.append(x.annotations[0] if x.annotations else None)
        x.connections.append(True)
    elif isinstance(x, Mod):
        x.val = 'scribbled'
        x.mult = 99
    elif isinstance(x, Interval):
        x.start += 100
        if x.mods:
            for m in x.mods:
                scribble(m, depth + 1)
            x.mods.append(Mod('scribble', 1))
    elif isinstance(x, Fragment):
        # a fragment carries peptides: its own and its parent's (strings, or annotations the caller may hold)
        for name in ('parent_sequence', 'sequence', 'unmod_sequence'):
            scribble(getattr(x, name, None), depth + 1)
    elif isinstance(x, FragmentMatch):
        scribble(x.fragment, depth + 1)
    elif isinstance(x, dict):
        for v in list(x.values()):
            scribble(v, depth + 1)
        x['__scribble__'] = 1
    elif isinstance(x, list):
        for v in x:
            scribble(v, depth + 1)
        x.append('scribble')
    elif isinstance(x, set):
        x.add('scribble')
    elif isinstance(x, tuple):
        for v in x:
            scribble(v, depth + 1)
    elif type(x).__module__.startswith('peptacular') and hasattr(x, '__dict__'):
        for v in list(vars(x).values()):
            scribble(v, depth + 1)
    else:
        raise HarnessError(f'scribble: result of unknown type {type(x).__module__}.{type(x).__name__}')


# ---- registry of query calls on an annotation -------------------------------------------------------

# every further container handed to a registered call besides the shared annotation (second annotation, list of annotations, rule
# dictionaries): run_sequence looks at them again after the call and after the result was edited
AUX = []


def registry():
    import peptacular as pt

    def sub(a):
        n = len(a.sequence)
        x = a.slice(0, max(1, n // 2))
        AUX.append((x, _snap_any(x)))
        return x

    def lst(*xs):
        x = list(xs)
        AUX.append((x, _snap_any(x)))
        return x

    def dct(**kw):
        AUX.append((kw, _snap_any(kw)))
        return kw

    R = [
        ('sequence_length', lambda a: pt.sequence_length(a)),
        ('is_ambiguous', lambda a: pt.is_ambiguous(a)),
        ('is_modified', lambda a: pt.is_modified(a)),
        ('get_mods', lambda a: pt.get_mods(a)),
        ('pop_mods(function)', lambda a: pt.pop_mods(a)),
        ('strip_mods', lambda a: pt.strip_mods(a)),
        ('reverse', lambda a: pt.reverse(a)),
        ('reverse(swap_terms)', lambda a: pt.reverse(a, swap_terms=True)),
        ('shuffle(seed)', lambda a: pt.shuffle(a, seed=7)),
        ('shift', lambda a: pt.shift(a, 2)),
        ('span_to_sequence', lambda a: pt.span_to_sequence(a, (0, max(1, len(a.sequence) - 1), 0))),
        ('split', lambda a: pt.split(a)),
        ('count_residues', lambda a: dict(pt.count_residues(a))),
        ('sort', lambda a: pt.sort(a)),
        ('is_subsequence', lambda a: pt.is_subsequence(sub(a), a)),
        ('is_subsequence(unordered)', lambda a: pt.is_subsequence(sub(a), a, order=False)),
        ('find_subsequence_indices', lambda a: pt.find_subsequence_indices(a, sub(a))),
        ('find_subsequence_indices(ignore_mods)', lambda a: pt.find_subsequence_indices(a, sub(a), ignore_mods=True)),
        ('coverage', lambda a: pt.coverage(a, lst(sub(a)), accumulate=True)),
        ('coverage(ignore_mods)', lambda a: pt.coverage(a, lst(sub(a), sub(a)), ignore_mods=True)),
        ('percent_coverage', lambda a: pt.percent_coverage(a, lst(sub(a)))),
        ('percent_coverage(ignore_mods)', lambda a: pt.percent_coverage(a, lst(sub(a)), ignore_mods=True)),
        ('condense_static_mods', lambda a: pt.condense_static_mods(a)),
        ('count_aa', lambda a: pt.count_aa(a)),
        ('is_sequence_valid', lambda a: pt.is_sequence_valid(a)),
        ('permutations', lambda a: pt.permutations(a, 2)),
        ('combinations', lambda a: pt.combinations(a, 2)),
        ('combinations_with_replacement', lambda a: pt.combinations_with_replacement(a, 2)),
        ('product', lambda a: pt.product(a, 2)),
        ('mass', lambda a: pt.mass(a)),
        ('mass(precision)', lambda a: pt.mass(a, precision=1)),
        ('mod_mass(precision)', lambda a: [pt.mod_mass(m, precision=1) for m in (a.nterm_mods or []) + (a.labile_mods or []) + (a.cterm_mods or [])]),
        ('mod_comp', lambda a: [pt.mod_comp(m) for m in (a.nterm_mods or []) if not str(m.val).lstrip('+-')[:1].isdigit()]),
        ('mass(b-ion,avg)', lambda a: pt.mass(a, ion_type='b', charge=2, monoisotopic=False)),
        ('mz', lambda a: pt.mz(a, charge=2)),
        ('comp_mass', lambda a: pt.comp_mass(a)),
        ('comp(estimate_delta)', lambda a: pt.comp(a, estimate_delta=True)),
        ('comp_mass(y-ion)', lambda a: pt.comp_mass(a, ion_type='y', charge=1)),
        ('condense_to_mass_mods', lambda a: pt.condense_to_mass_mods(a)),
        ('fragment', lambda a: pt.fragment(a, ['b', 'y'], [1, 2])),
        ('fragment(losses)', lambda a: pt.fragment(a, 'b', 1, water_loss=True, ammonia_loss=True, return_type='mz-label')),
        ('Fragmenter.fragment', lambda a: pt.Fragmenter(a).fragment(['y'], [1])),
        ('digest', lambda a: list(pt.digest(a, 'trypsin/P', missed_cleavages=1))),
        ('digest(annotation-span,semi)', lambda a: list(pt.digest(a, '([KR])', semi=True, return_type='annotation-span'))),
        ('digest_from_config', lambda a: list(pt.digest_from_config(a, pt.EnzymeConfig(regex=['(?<=K)'], missed_cleavages=1)))),
        ('sequential_digest', lambda a: list(pt.sequential_digest(a, [pt.EnzymeConfig(regex=['(?<=K)']), pt.EnzymeConfig(regex=['(?=D)'])]))),
        ('get_cleavage_sites', lambda a: list(pt.get_cleavage_sites(a, 'trypsin'))),
        ('get_left_semi_enzymatic_sequences', lambda a: list(pt.get_left_semi_enzymatic_sequences(a))),
        ('get_right_semi_enzymatic_sequences', lambda a: list(pt.get_right_semi_enzymatic_sequences(a, return_type='annotation'))),
        ('get_semi_enzymatic_sequences', lambda a: list(pt.get_semi_enzymatic_sequences(a))),
        ('get_non_enzymatic_sequences', lambda a: list(pt.get_non_enzymatic_sequences(a, max_len=2))),
        ('apply_static_mods', lambda a: pt.apply_static_mods(a, dct(K=lst('Acetyl')), nterm_mods='Formula:C2', mode='append')),
        ('apply_static_mods(annotation)', lambda a: pt.apply_static_mods(a, dct(P=lst(1.5)), cterm_mods={'': lst(2)}, return_type='annotation')),
        ('apply_variable_mods', lambda a: pt.apply_variable_mods(a, dct(K=lst(lst('Methyl'))), 1, nterm_mods='Acetyl')),
        ('apply_variable_mods(annotation,max_mods=0)', lambda a: pt.apply_variable_mods(a, {'[ST]': [['Phospho']]}, 0, return_type='annotation')),
        ('apply_variable_mods(annotation)', lambda a: pt.apply_variable_mods(a, {'[ST]': [['Phospho']]}, 2, return_type='annotation', mode='append')),
        ('serialize', lambda a: pt.serialize(a, include_plus=True)),
        ('a.slice', lambda a: a.slice(1, len(a.sequence))),
        ('a.shift', lambda a: a.shift(-1)),
        ('a.shuffle(seed)', lambda a: a.shuffle(seed=3)),
        ('a.reverse', lambda a: a.reverse(swap_terms=True)),
        ('a.sort_residues', lambda a: a.sort_residues()),
        ('a.split', lambda a: list(a.split())),
        ('a.count_residues', lambda a: dict(a.count_residues())),
        ('a.dict', lambda a: a.dict()),
        ('a.mod_dict', lambda a: a.mod_dict()),
        ('a.copy', lambda a: a.copy()),
        ('create_multi_annotation', lambda a: pt.create_multi_annotation(lst(a, sub(a)), lst(True))),
        ('a.strip', lambda a: a.strip()),
        ('a.condense_static_mods', lambda a: a.condense_static_mods()),
        ('a.is_subsequence', lambda a: sub(a).is_subsequence(a)),
        ('a.find_indices', lambda a: sub(a).find_indices(a)),
        ('a.permutations', lambda a: a.permutations(2)),
        ('a.product', lambda a: a.product(2)),
        ('a.combinations', lambda a: a.combinations(2)),
        ('a.combinations_with_replacement', lambda a: a.combinations_with_replacement(2)),
        ('a.contains_sequence_ambiguity', lambda a: (a.contains_sequence_ambiguity(), a.contains_residue_ambiguity(), a.contains_mass_ambiguity())),
        ('a.count_internal_mods', lambda a: (a.count_internal_mods(), a.count_modified_residues(), a.has_mods())),
        ('repr/len/eq', lambda a: (repr(a), len(a), a == a)),
    ]
    return R


# calls that are only defined for unambiguous annotations (documented ValueError otherwise)
NEEDS_UNAMBIGUOUS = {'fragment', 'fragment(losses)', 'Fragmenter.fragment'}


def _db_fingerprint():
    """content of the process-wide tables every query reads: each entry of the modification databases and the constants"""
    from peptacular.mods import mod_db_setup as m
    from peptacular import constants as c
    out = []
    for name in ('UNIMOD_DB', 'PSI_MOD_DB', 'XLMOD_DB', 'MONOSACCHARIDES_DB', 'RESID_DB', 'GNO_DB'):
        db = getattr(m, name)
        out.append((name, len(db.id_map), len(db.name_map), len(db.synonym_map), len(db.names_sorted),
                    hash(tuple((k, e.id, e.name, e.mono_mass, e.avg_mass, e.composition, tuple(e.synonyms or ())) for k, e in db.id_map.items())),
                    hash(tuple(db.name_map)), hash(tuple(db.synonym_map)), hash(tuple(db.names_sorted))))
    out.append(hash(repr([(n, getattr(c, n)) for n in sorted(dir(c)) if n.isupper() and n != 'PROTEASES_COMPILED' and
                          isinstance(getattr(c, n), (dict, float, int, str, list, tuple))])))
    return out


def _snap_any(x):
    from peptacular.proforma.proforma_parser import ProFormaAnnotation
    if isinstance(x, ProFormaAnnotation):
        return snap(x)
    if isinstance(x, list):
        return ['LIST'] + [_snap_any(v) for v in x]
    if isinstance(x, dict):
        return ['DICT'] + [[repr(k), _snap_any(v)] for k, v in x.items()]
    return repr(x)


def run_sequence(r: Result, pep, names, where):
    import peptacular as pt
    R = dict(registry())
    s = model.write_pep(pep)
    a = pt.parse(s)
    pristine = snap(a)
    db0 = _db_fingerprint()
    ctx = dict(annotation=s, calls=names)
    done = []
    for name in names:
        fn = R[name]
        before = snap(a)
        fresh = pt.parse(s)
        # the caller's random number generator must be neither consumed nor reseeded
        random.seed(12345)
        st0 = random.getstate()
        del AUX[:]
        try:
            res = fn(a)
            err = None
        except ValueError as e:
            res, err = None, type(e).__name__
        aux = list(AUX)
        st1 = random.getstate()
        if st1 != st0:
            r.fail("the caller's random number generator is left alone", f'C08/global-rng-disturbed/{name}', history=done, **ctx)
        after = snap(a)
        aux_mid = [_snap_any(x) for x, _b in aux]
        if any(b != m for (_x, b), m in zip(aux, aux_mid)):
            i = [b != m for (_x, b), m in zip(aux, aux_mid)].index(True)
            r.fail('a query leaves every argument it was given observably unchanged', f'C08/mutates-argument/{name}/further-argument',
                   argument=str(aux_mid[i])[:300], expected=str(aux[i][1])[:300], history=done, **ctx)
        if after != before:
            fields = [k for k in before[1] if before[1][k] != after[1][k]] or ['serialization']
            r.fail('a query leaves its annotation argument observably unchanged', f'C08/mutates-argument/{name}/' + '+'.join(fields),
                   before=before[0], after=after[0], history=done, **ctx)
        # same result as the first call on a fresh object
        random.seed(999)
        del AUX[:]
        try:
            res_f = fn(fresh)
            err_f = None
        except ValueError as e:
            res_f, err_f = None, type(e).__name__
        if after == before and before == pristine:
            if err != err_f or norm(res) != norm(res_f):
                r.fail('the result does not depend on what was called before (or on the global random seed)',
                       f'C08/history-dependent-result/{name}', history=done, error=err, error_fresh=err_f, **ctx)
        # results share no mutable state with the argument
        if after == before and res is not None:
            scribble(res)
            if snap(a) != after:
                r.fail('editing a result never changes what was passed in', f'C08/result-shares-state/{name}', history=done, **ctx)
            elif [_snap_any(x) for x, _b in aux] != aux_mid:
                r.fail('editing a result never changes what was passed in', f'C08/result-shares-state/{name}/further-argument', history=done, **ctx)
        # restore the shared object when a call changed it, so that later steps are still explored
        if snap(a) != pristine:
            a = pt.parse(s)
        done.append(name)
    if _db_fingerprint() != db0:
        r.fail('the modification databases are not disturbed', f'C08/{where}/database-changed', **ctx)


def check_pair(case) -> Result:
    r = Result()
    pep = FIXED[case['pep']]
    names = [case['a'], case['b']]
    r.nontrivial = case['a'] != case['b'] and bool(pep['labile']) and bool(pep['nterm'] or pep['cterm']) and pep['charge'] is not None
    r.classes = ['pair', f'annotation={case["pep"]}']
    run_sequence(r, pep, names, 'pairs')
    return r


def check_triple(case) -> Result:
    r = Result()
    pep = case['pep']
    names = case['calls']
    if pep['unknown'] or pep['intervals']:
        pass
    r.nontrivial = len(set(names)) >= 2 and bool(pep['labile']) and bool(pep['nterm'] or pep['cterm']) and pep['charge'] is not None
    r.classes = ['triple'] + (['all-kinds'] if r.nontrivial else [])
    run_sequence(r, pep, names, 'triples')
    return r


def _mk(seq, **kw):
    p = model.empty_pep(seq)
    p.update(kw)
    return p


FIXED = [
    _mk('PEKTIDEK', labile=[['Glycan:Hex1', 1]], nterm=[['Acetyl', 1]], cterm=[['Amidated', 1]], internal=[[1, [['Phospho', 1]]], [3, [['+1.5', 2]]]],
        intervals=[[5, 7, False, [['+7.25', 1], ['Methyl', 1]]]], charge=2),
    _mk('KPSTDK', labile=[['+100', 1]], nterm=[['+1', 1], ['Formula:C2', 1]], cterm=[['-2', 1]], internal=[[0, [['Methyl', 1]]], [5, [['Acetyl', 1], ['1', 1]]]],
        static=[[[['Carbamidomethyl', 1]], ['C', 'K']]], isotope=['13C'], charge=3, adducts='+2Na+,+H+'),
    _mk('SKTPDKRA', labile=[['Phospho', 2]], nterm=[['Acetyl', 1]], cterm=[['Methyl', 1]], static=[[[['+10', 1]], ['N-Term', 'S']]],
        unknown=[['+3.5', 1]], intervals=[[3, 5, True, [['Oxidation', 1]]]], charge=1),
    _mk('AKDPKST', labile=[['Hex', 1]], unknown=[['Oxidation', 1]], nterm=[['+42.0', 1]], cterm=[['+1', 1]], internal=[[2, [['+3', 1]]]],
        intervals=[[3, 5, True, [['+7', 1]]]], charge=2),
    _mk('MKPEKDS', nterm=[['Acetyl', 1]], internal=[[0, [['Oxidation', 1]]]]),
    _mk('PEPTIDEK'),
    _mk('TKSDKPR', labile=[['+5', 1]], cterm=[['Amidated', 1]], isotope=['15N', '13C'], charge=-2),
    _mk('KDSPTKE', labile=[['+1', 1], ['+2', 1]], nterm=[['Methyl', 1]], cterm=[['+9', 1]], internal=[[i, [['+1', 1]]] for i in range(7)], charge=4,
        adducts='+4H+'),
]


def pair_cases(n_annot):
    names = [n for n, _f in registry()]

    def gen_(shard, nshards):
        k = 0
        for pi in range(n_annot):
            for a in names:
                for b in names:
                    k += 1
                    if k % nshards == shard:
                        yield {'pep': pi, 'a': a, 'b': b}
    return gen_


def triple_strategy():
    names = [n for n, _f in registry()]
    one = gen.mass_mod(('num', 'formula', 'unimod'), max_mult=2)
    st_text = gen.mass_mod_text(('num', 'formula', 'unimod'), gt_ok=False)
    pm = gen.pep_model(alphabet='ACDEGKMPSTR', min_len=2, max_len=8,
                       kinds=('labile', 'static', 'isotope', 'nterm', 'cterm', 'internal', 'charge', 'unknown', 'intervals', 'adducts'),
                       mod_strategy=one, mod_list=st.lists(one, min_size=1, max_size=2), allow_empty=False, static_mod_text=st_text,
                       isotopes=['13C', '15N'], rule_targets='ACDEGKMPSTR')

    @st.composite
    def strat(draw):
        pep = draw(pm)
        # bias towards "all kinds present"
        if draw(st.booleans()):
            pep['labile'] = pep['labile'] or [['+7', 1]]
            pep['nterm'] = pep['nterm'] or [['Acetyl', 1]]
            pep['cterm'] = pep['cterm'] or [['+3', 1]]
            pep['charge'] = pep['charge'] if pep['charge'] else 2
        if pep['charge'] is not None:
            pep['charge'] = max(-3, min(4, pep['charge']))
        return {'pep': pep, 'calls': draw(st.lists(st.sampled_from(names), min_size=3, max_size=3))}
    return strat()


# ---- calls that take containers ------------------------------------------------------------------------

def check_container(case) -> Result:
    import peptacular as pt
    from peptacular.proforma.proforma_dataclasses import Mod
    r = Result()
    kind = case['kind']
    r.nontrivial = True
    r.classes = [kind]

    def probe(name, args, call, alias=True):
        """args: dict name -> container; call(**args) -> result"""
        before = copy.deepcopy(args)
        random.seed(4242)
        st0 = random.getstate()
        try:
            res = call(**args)
        except ValueError:
            res = None
        if random.getstate() != st0:
            r.fail("the caller's random number generator is left alone", f'C08/global-rng-disturbed/{name}')
        for k in args:
            if repr(args[k]) != repr(before[k]):
                r.fail('a query leaves its container argument unchanged', f'C08/mutates-argument/{name}/{k}', before=repr(before[k])[:300],
                       after=repr(args[k])[:300])
        if alias and res is not None:
            mid = copy.deepcopy(args)
            scribble(res)
            for k in args:
                if repr(args[k]) != repr(mid[k]):
                    r.fail('editing a result never changes what was passed in', f'C08/result-shares-state/{name}/{k}')
        return res

    if kind == 'isotopic_distribution':
        probe('isotopic_distribution', {'chemical_formula': dict(case['comp'])},
              lambda chemical_formula: pt.isotopic_distribution(chemical_formula, max_isotopes=5))
    elif kind == 'chem':
        comp = dict(case['comp'])
        probe('chem_mass', {'formula': dict(comp)}, lambda formula: pt.chem_mass(formula))
        probe('write_chem_formula', {'composition': dict(comp)}, lambda composition: pt.write_chem_formula(composition, hill_order=True))
        probe('apply_isotope_mods_to_composition', {'composition': dict(comp), 'isotopic_mods': ['13C', '15N']},
              lambda composition, isotopic_mods: pt.apply_isotope_mods_to_composition(composition, isotopic_mods))
        probe('glycan_comp', {'glycan': {'Hex': 2, 'HexNAc': 1}}, lambda glycan: pt.glycan_comp(glycan))
        probe('glycan_mass', {'formula': {'Hex': 2, 'HexNAc': 1}}, lambda formula: pt.glycan_mass(formula))
        probe('merge_isotopic_distributions', {'d1': [(1.0, 0.5), (2.0, 0.5)], 'd2': [(1.0, 0.25)]},
              lambda d1, d2: pt.merge_isotopic_distributions(d1, d2))
    elif kind == 'fragment-losses':
        probe('fragment', {'losses': [tuple(x) for x in case['losses']]},
              lambda losses: pt.fragment('PEKTIDES', 'b', 1, losses=losses, water_loss=True, ammonia_loss=True, return_type='mz'))
        fr = pt.Fragmenter('PEKTIDES')
        probe('Fragmenter.fragment', {'losses': [tuple(x) for x in case['losses']]},
              lambda losses: fr.fragment('y', 1, losses=losses, water_loss=True, return_type='mz'))
    elif kind == 'score':
        frags = pt.fragment('PEKTIDE', ['b', 'y'], [1, 2])
        order = case['order']
        frags = [frags[i % len(frags)] for i in order][:10]
        mzs = [f.mz + d for f, d in zip(frags, case['deltas'])]
        mzs = mzs[::-1]
        ints = [float(i + 1) for i in range(len(mzs))]
        res = probe('get_fragment_matches', {'fragments': list(frags), 'mz_spectra': list(mzs), 'intensity_spectra': list(ints)},
                    lambda fragments, mz_spectra, intensity_spectra: pt.get_fragment_matches(fragments, mz_spectra, intensity_spectra, 0.5, 'th'),
                    alias=False)
        if res:
            probe('get_match_coverage', {'fragment_matches': list(res)}, lambda fragment_matches: pt.get_match_coverage(fragment_matches))
            probe('get_matched_intensity_percentage', {'fragment_matches': list(res), 'intensities': list(ints)},
                  lambda fragment_matches, intensities: pt.get_matched_intensity_percentage(fragment_matches, intensities))
        srt = sorted(mzs)
        probe('match_spectra', {'fragments': sorted(f.mz for f in frags), 'mz_spectra': srt, 'intensity_spectra': list(ints)},
              lambda fragments, mz_spectra, intensity_spectra: pt.match_spectra(fragments, mz_spectra, 0.5, 'th', 'largest', intensity_spectra))
        probe('binomial_score', {'fragments': sorted(f.mz for f in frags), 'mz_spectra': srt},
              lambda fragments, mz_spectra: pt.binomial_score(fragments, mz_spectra, 0.5, 'th'))
        # a Fragment describes itself the same way whatever was asked of it (or of a list containing it) before
        fresh = pt.fragment('PEKTIDE', ['b', 'y'], [1, 2])
        f0 = fresh[order[0] % len(fresh)]
        first = (list(f0.to_dict().items()), len(list(f0)))
        _ = (f0.label, f0.number)
        pt.filter_missing_mono_isotope(list(fresh))
        later = (list(f0.to_dict().items()), len(list(f0)))
        if first != later:
            r.fail('the same result on the first call and after other calls', 'C08/history-dependent-result/Fragment.to_dict',
                   first_keys=[k for k, _v in first[0]], later_keys=[k for k, _v in later[0]], first_len=first[1], later_len=later[1])
    elif kind == 'mod-lists':
        vals = case['mods']
        res = probe('create_annotation', {'nterm_mods': list(vals), 'internal_mods': {1: list(vals), 2: vals[0]}, 'labile_mods': list(vals)},
                    lambda nterm_mods, internal_mods, labile_mods: pt.create_annotation('PEPTIDE', nterm_mods=nterm_mods,
                                                                                        internal_mods=internal_mods, labile_mods=labile_mods))
        probe('create_annotation(Mod objects)', {'cterm_mods': [Mod(v, 1) for v in vals], 'intervals': [(1, 3, False, list(vals))]},
              lambda cterm_mods, intervals: pt.create_annotation('PEPTIDE', cterm_mods=cterm_mods, intervals=intervals))
        probe('create_annotation(Mod objects, other slots)',
              {'nterm_mods': [Mod(v, 1) for v in vals], 'unknown_mods': [Mod(v, 1) for v in vals], 'labile_mods': [Mod(v, 2) for v in vals],
               'internal_mods': {0: [Mod(v, 1) for v in vals]}, 'isotope_mods': [Mod('13C', 1)], 'static_mods': [Mod('[1]@P', 1)],
               'charge_adducts': [Mod('+H+', 1)]},
              lambda nterm_mods, unknown_mods, labile_mods, internal_mods, isotope_mods, static_mods, charge_adducts:
              pt.create_annotation('PEPTIDE', nterm_mods=nterm_mods, unknown_mods=unknown_mods, labile_mods=labile_mods,
                                   internal_mods=internal_mods, isotope_mods=isotope_mods, static_mods=static_mods, charge=1,
                                   charge_adducts=charge_adducts))
        probe('add_mods', {'mods': {'nterm': list(vals), 2: list(vals), 'intervals': [(1, 3, False, vals[0])]}},
              lambda mods: pt.add_mods('PEPTIDE', mods))
        probe('apply_static_mods', {'internal_mods': {'P': list(vals)}, 'nterm_mods': list(vals)},
              lambda internal_mods, nterm_mods: pt.apply_static_mods('PEPTIDE', internal_mods, nterm_mods=nterm_mods))
        probe('apply_variable_mods', {'internal_mods': {'P': [list(vals)]}, 'cterm_mods': {'E': [list(vals)]}},
              lambda internal_mods, cterm_mods: pt.apply_variable_mods('PEPTIDE', internal_mods, 1, cterm_mods=cterm_mods))
        # rules given as Mod objects, two rules hitting the same residue, annotation results (edited afterwards by probe())
        mobj = [Mod(v, 1) for v in vals]
        probe('apply_static_mods(Mod rules)', {'internal_mods': {'P': list(mobj), 'P(?=E)': [Mod('second', 1)], '[PT]': [Mod('third', 1)]},
                                               'nterm_mods': {'': [Mod('nt', 1)]}},
              lambda internal_mods, nterm_mods: pt.apply_static_mods('PEPTIDE', internal_mods, nterm_mods=nterm_mods, return_type='annotation'))
        probe('apply_static_mods(Mod rules, append)', {'internal_mods': {'P': list(mobj), 'E': list(mobj)}},
              lambda internal_mods: pt.apply_static_mods('PE[x]PTIDE[y]', internal_mods, mode='append', return_type='annotation'))
        res = probe('apply_variable_mods(Mod rules)', {'internal_mods': {'P': [list(mobj)], '[ST]': [[Mod('q', 1)]]}, 'nterm_mods': {'': [list(mobj)]}},
                    lambda internal_mods, nterm_mods: pt.apply_variable_mods('PEPTIDES', internal_mods, 2, nterm_mods=nterm_mods,
                                                                             return_type='annotation'), alias=False)
        if res and len(res) >= 2:
            snaps = [snap(x) for x in res]
            scribble(res[0])
            if [snap(x) for x in res[1:]] != snaps[1:]:
                r.fail('the forms returned by apply_variable_mods are independent of each other',
                       'C08/result-shares-state/apply_variable_mods/sibling-forms')
            exp_forms = pt.apply_variable_mods('PEPTIDES', {'P': [list(mobj)], '[ST]': [[Mod('q', 1)]]}, 2, nterm_mods={'': [list(mobj)]})
            if [x[0] for x in snaps] != exp_forms:
                r.fail('the result does not depend on what was called before', 'C08/history-dependent-result/apply_variable_mods(Mod rules)')
        # twice the same call with the same (Mod) rule objects gives the same peptide
        rules = {'P': list(mobj), 'P(?=E)': [Mod('second', 1)]}
        first = pt.apply_static_mods('PEPTIDE', rules)
        second = pt.apply_static_mods('PEPTIDE', rules)
        if first != second:
            r.fail('the result does not depend on what was called before', 'C08/history-dependent-result/apply_static_mods(Mod rules)',
                   first=first, second=second)
        probe('mod_mass(list)', {'mod': [v for v in vals if not isinstance(v, str) or v[0] in '+-0123456789']},
              lambda mod: pt.mod_mass(mod))
        probe('mass(isotope_mods)', {'isotope_mods': ['13C', '15N']}, lambda isotope_mods: pt.mass('PEPTIDE', isotope_mods=isotope_mods))
        probe('comp(isotope_mods)', {'isotope_mods': ['13C']}, lambda isotope_mods: pt.comp('PEPTIDE', isotope_mods=isotope_mods))
    elif kind == 'pure-string':
        # queries on immutable arguments that return mutable objects: editing one result must not change the next one
        calls = {
            'mod_comp': lambda: pt.mod_comp(case['text']),
            'mod_comp(Mod)': lambda: pt.mod_comp(Mod(case['text'], 2)),
            'parse_chem_formula': lambda: pt.parse_chem_formula('C6H12O6[13C2]'),
            'glycan_comp': lambda: pt.glycan_comp('HexNAc2Hex3'),
            'parse_glycan_formula': lambda: pt.parse_glycan_formula('HexNAc2Hex3'),
            'get_mods': lambda: pt.get_mods(case['seq']),
            'pop_mods': lambda: pt.pop_mods(case['seq']),
            'comp': lambda: pt.comp(case['seq'], estimate_delta=True),
            'comp_mass': lambda: pt.comp_mass(case['seq']),
            'parse': lambda: pt.parse(case['seq']),
            'count_residues': lambda: pt.count_residues(case['seq']),
            'parse_static_mods': lambda: pt.parse_static_mods(pt.parse(case['seq']).static_mods),
            'parse_charge_adducts': lambda: pt.parse_charge_adducts('+2Na+,+H+'),
            'fragment': lambda: pt.fragment(case['seq'].split('/')[0].replace('{Hex}', ''), 'b', 1) if '?' not in case['seq'] else None,
            'digest(annotation)': lambda: list(pt.digest(case['seq'], 'trypsin/P', return_type='annotation')),
            'isotopic_distribution': lambda: pt.isotopic_distribution({'C': 6, 'H': 12, 'O': 6}, max_isotopes=4),
        }
        for name, fn in calls.items():
            try:
                r1 = fn()
            except ValueError:
                continue
            if r1 is None:
                continue
            n1 = norm(r1)
            scribble(r1)
            r2 = fn()
            if norm(r2) != n1:
                r.fail('the same query gives the same result whatever was done with an earlier result',
                       f'C08/result-shared-between-calls/{name}', first=str(n1)[:200], second=str(norm(r2))[:200])
    return r


# ---- one Fragmenter used for several requests -----------------------------------------------------------

FRAGMENTER_CALLS = [
    ('b/1', dict(ion_types='b', charges=1)),
    ('y/1,2 mz', dict(ion_types=['y'], charges=[1, 2], return_type='mz')),
    ('y/1 precision=0', dict(ion_types='y', charges=1, precision=0)),
    ('b,y/2 precision=2 mz-label', dict(ion_types=['b', 'y'], charges=2, precision=2, return_type='mz-label')),
    ('a,c,x,z/1', dict(ion_types=['a', 'c', 'x', 'z'], charges=1)),
    ('i/1', dict(ion_types='i', charges=1, return_type='mass')),
    ('internal by/1', dict(ion_types='by', charges=1, return_type='mass-label')),
    ('b/1 isotopes', dict(ion_types='b', charges=1, isotopes=[0, 1, 2], return_type='mz')),
    ('y/1 water+ammonia', dict(ion_types='y', charges=1, water_loss=True, ammonia_loss=True, return_type='label')),
    ('b/1 losses', dict(ion_types='b', charges=1, losses=[('[ST]', -97.9769), ('E', -18.0)], max_losses=2, return_type='mz')),
    ('p/3', dict(ion_types='p', charges=3, return_type='mz')),
]
FRAGMENTER_PEPTIDES = ['PEKTIDES', '[Acetyl]-PEK[Phospho]TIDES-[Amidated]', '<13C><[Carbamidomethyl]@C>{Glycan:Hex}CEM[Oxidation]SK/2',
                       'S[+79.9]TEDK[Methyl]']


def check_fragmenter(case) -> Result:
    """the second of two requests to one Fragmenter returns what a new Fragmenter returns, and the Fragmenter is as it was"""
    import peptacular as pt
    r = Result()
    s = FRAGMENTER_PEPTIDES[case['pep']]
    (na, ka), (nb, kb) = FRAGMENTER_CALLS[case['a']], FRAGMENTER_CALLS[case['b']]
    r.nontrivial = case['a'] != case['b']
    r.classes = ['fragmenter-pair', f'monoisotopic={case["mono"]}']
    ctx = dict(peptide=s, first=na, second=nb, monoisotopic=case['mono'])
    given = pt.parse(s)
    before = snap(given)
    fr = pt.Fragmenter(given, monoisotopic=case['mono'])
    state0 = (snap(fr.annotation), [snap(c) if hasattr(c, 'serialize') else c for c in fr.components], list(fr.mass_components))
    first = fr.fragment(**copy.deepcopy(ka))
    n_first = norm(first)
    if case['edit']:
        scribble(first)
    second = fr.fragment(**copy.deepcopy(kb))
    exp = pt.Fragmenter(pt.parse(s), monoisotopic=case['mono']).fragment(**copy.deepcopy(kb))
    if norm(second) != norm(exp):
        r.fail('the same result whether it is the first call on a fresh object or comes after other calls on the same object',
               'C08/history-dependent-result/Fragmenter.fragment' + ('/after-editing-a-result' if case['edit'] and n_first is not None else ''), **ctx)
    state1 = (snap(fr.annotation), [snap(c) if hasattr(c, 'serialize') else c for c in fr.components], list(fr.mass_components))
    if state1 != state0 and not case['edit']:
        r.fail('a query leaves the object it is called on observably unchanged', 'C08/mutates-argument/Fragmenter.fragment/fragmenter-state', **ctx)
    if snap(given) != before:
        r.fail('a query leaves its annotation argument observably unchanged', 'C08/mutates-argument/Fragmenter/annotation', **ctx)
        return r
    # the Fragmenter is a result too: it shares nothing with the annotation it was built from, in either direction
    if case['edit']:
        fr2 = pt.Fragmenter(given, monoisotopic=case['mono'])
        scribble(given)  # the caller goes on working with his annotation
        third = fr2.fragment(**copy.deepcopy(kb))
        if norm(third) != norm(exp):
            r.fail('results share no mutable state with the arguments', 'C08/result-shares-state/Fragmenter/follows-later-edits-of-the-annotation', **ctx)
        given2 = pt.parse(s)
        fr3 = pt.Fragmenter(given2, monoisotopic=case['mono'])
        scribble(fr3.annotation)
        if snap(given2) != before:
            r.fail('editing a result never changes what was passed in', 'C08/result-shares-state/Fragmenter/annotation', **ctx)
    return r


def fragmenter_cases():
    for p in range(len(FRAGMENTER_PEPTIDES)):
        for a in range(len(FRAGMENTER_CALLS)):
            for b in range(len(FRAGMENTER_CALLS)):
                for mono in (True, False):
                    for edit in (False, True):
                        yield {'pep': p, 'a': a, 'b': b, 'mono': mono, 'edit': edit}


def container_strategy():
    comp = st.lists(st.tuples(st.sampled_from(['C', 'H', 'N', 'O', 'S', 'e', 'p', 'n', 'Li']), st.integers(0, 8)), min_size=1, max_size=6,
                    unique_by=lambda t: t[0]).map(lambda xs: [list(x) for x in xs])
    mods = st.lists(st.sampled_from(['Acetyl', 'Phospho', 1, 2.5, '+3', 'Formula:C2']), min_size=1, max_size=3)
    losses = st.lists(st.tuples(st.sampled_from(['E', 'S', '[KR]']), st.sampled_from([-10.0, -18.0])).map(list), max_size=2)
    return st.one_of(
        st.fixed_dictionaries({'kind': st.just('isotopic_distribution'), 'comp': comp}),
        st.fixed_dictionaries({'kind': st.just('chem'), 'comp': comp}),
        st.fixed_dictionaries({'kind': st.just('fragment-losses'), 'losses': losses}),
        st.fixed_dictionaries({'kind': st.just('score'), 'order': st.permutations(list(range(12))),
                               'deltas': st.lists(st.sampled_from([0.0, 0.1, -0.2, 3.0]), min_size=12, max_size=12)}),
        st.fixed_dictionaries({'kind': st.just('mod-lists'), 'mods': mods}),
        st.fixed_dictionaries({'kind': st.just('pure-string'),
                               'text': st.sampled_from(['Acetyl', 'Phospho', 'Formula:C2H3', 'Glycan:Hex2', 'U:1', 'MOD:00046', 'Oxidation|INFO:x']),
                               'seq': st.sampled_from(['PEP[Acetyl]TIDEK/2', '<[Carbamidomethyl]@C><13C>PEC[Phospho]TKIDE', '[Acetyl]-PEK[+1.5]TIDE-[Amidated]',
                                                       '{Hex}PEKTIDE/2[+2Na+]', 'PE(KT)[Phospho]IDEK', '[Oxidation]?PEKTIDE'])}),
    )


_RELOAD_SCRIPT = r"""
import json, sys, warnings
warnings.simplefilter('ignore')
import peptacular as pt
from peptacular.mods.mod_db_setup import UNIMOD_DB, PSI_MOD_DB, XLMOD_DB, MONOSACCHARIDES_DB
def state():
    out = [(len(db.id_map), len(db.name_map), len(db.synonym_map), len(db.names_sorted)) for db in (UNIMOD_DB, PSI_MOD_DB, XLMOD_DB, MONOSACCHARIDES_DB)]
    for q in ('PEPT[Phospho]IDE', 'A[MOD:00046]', 'A[XLMOD:02001]', 'N[Glycan:HexA2]', 'N[Glycan:Fucose1NeuAc1]'):
        try:
            out.append(round(pt.mass(q), 6))
        except Exception as e:
            out.append(type(e).__name__)
    return out
rec = {'before': state(), 'error': None, 'after_each': []}
for _ in range(int(sys.argv[1])):
    try:
        pt.reload_all_databases()
    except Exception as e:
        rec['error'] = type(e).__name__ + ': ' + str(e)[:120]
    rec['after_each'].append(state())
print(json.dumps(rec))
"""


def check_reload(case) -> Result:
    """re-reading the bundled vocabularies (reload_all_databases) must leave the process-wide databases as a fresh import has them:
    every later query depends on them.  Run in a child process, because a failed reload would poison this worker."""
    import subprocess
    import sys
    r = Result()
    r.nontrivial = True
    r.classes = ['reload-databases']
    p = subprocess.run([sys.executable, '-W', 'ignore', '-c', _RELOAD_SCRIPT, str(case['times'])], capture_output=True, text=True, timeout=600)
    if p.returncode != 0 or not p.stdout.strip():
        from pv.runner import HarnessError
        raise HarnessError('reload child failed: ' + p.stderr[-500:])
    rec = json.loads(p.stdout.strip().splitlines()[-1])
    ctx = dict(times=case['times'], before=rec['before'])
    if rec['error']:
        r.fail('re-reading the bundled databases works', 'C08/reload-databases/raises', error=rec['error'], after=rec['after_each'][-1], **ctx)
    elif any(a != rec['before'] for a in rec['after_each']):
        r.fail('re-reading the bundled databases leaves them as a fresh import has them', 'C08/reload-databases/state-differs',
               after=rec['after_each'], **ctx)
    return r


def reload_cases():
    for t in (1, 2, 3):
        yield {'times': t}


def parts(tier):
    n_annot = 5 if tier == 'quick' else len(FIXED)
    n = 1500 if tier == 'quick' else 20000
    nreg = len(registry())
    return [
        Part(name='pairs', kind='enum', check_case=check_pair, cases=pair_cases(n_annot), sharded=True, exhaustive=True, shards=16,
             space=f'all {nreg}x{nreg} ordered pairs of registered query calls x {n_annot} feature-complete annotations'),
        Part(name='triples', kind='hyp', check_case=check_triple, strategy=triple_strategy, examples=n),
        Part(name='containers', kind='hyp', check_case=check_container, strategy=container_strategy, examples=max(300, n // 3)),
        Part(name='fragmenter-pairs', kind='enum', check_case=check_fragmenter, cases=fragmenter_cases, exhaustive=True, shards=16,
             space=f'all {len(FRAGMENTER_CALLS)}x{len(FRAGMENTER_CALLS)} ordered pairs of Fragmenter.fragment requests on one Fragmenter x '
                   f'{len(FRAGMENTER_PEPTIDES)} peptides x monoisotopic/average x (first result edited or not)'),
        Part(name='reload-databases', kind='enum', check_case=check_reload, cases=reload_cases, exhaustive=True, shards=3,
             space='reload_all_databases() called 1, 2 and 3 times in a fresh process'),
    ]
