"""C05 - fragment ion series obey the chemistry of peptide backbone cleavage (outside reference)."""
import copy

from hypothesis import strategies as st

from pv import gen, model, refchem, refmass
from pv.runner import Part, Result

ID = 'C05'
TITLE = 'Fragment ion series obey the chemistry of peptide backbone cleavage'
RULE = ('case = residue string of length 2..15 over the 20 standard letters + U, O with numeric or formula modifications on '
        'residues and termini x monoisotopic/average x a locality probe (delta on one residue or terminus); every ion of all 16 '
        'types at charge 1..4 is compared with the reference chemistry; non-trivial = at least one modification and length >= 3')
ASSUMPTIONS = [
    'offsets (CO, NH3, H2, water, proton) come from pv/refchem.py; b_i = residues + modifications + proton is the absolute anchor',
    'internal ions: terminal offsets of both cleavage types applied to the span, as the property states (reproduces ay, by, cy)',
    'tolerance 1e-5 Da; in average mode each of the k charge carriers of a relation may be the CODATA proton or average hydrogen minus an electron (the property does not say which): the difference must lie within 1e-5 of j x 1.157e-4 for some j in 0..k - a discrete set, not a band',
]

TERMINAL = ['a', 'b', 'c', 'x', 'y', 'z']
INTERNAL = ['ax', 'ay', 'az', 'bx', 'by', 'bz', 'cx', 'cy', 'cz']
ALL = TERMINAL + INTERNAL + ['i']


def _tol(mono, charge):
    return 1e-5


_AVG_CARRIER = (refchem.atom_mass('H', False) - refchem.ELECTRON) - refchem.PROTON   # 1.157e-4


def _off(d, mono, carriers):
    """is the difference d outside the tolerance?  monoisotopic: 1e-5.  average: the property does not say whether a charge carrier
    is the CODATA proton or average hydrogen minus an electron, so each of the `carriers` carriers may be either - d must be within
    1e-5 of k x 1.157e-4 for some k in 0..carriers (a discrete set, not a band)"""
    if mono:
        return abs(d) > 1e-5
    return all(abs(d - k * _AVG_CARRIER) > 1e-5 for k in range(0, carriers + 1))


def _spans(n, t):
    if t in 'abc':
        return [(0, k) for k in range(1, n + 1)]
    if t in 'xyz':
        return [(k, n) for k in range(0, n)]
    if t == 'i':
        return [(k, k + 1) for k in range(n)]
    return [(i, j) for i in range(1, n) for j in range(i + 1, n)]


def _ions(pt, s, mono, charges):
    out = {}
    for f in pt.fragment(s, ALL, charges, monoisotopic=mono):
        out[(f.ion_type, f.start, f.end, f.charge)] = f.mass
    return out


def check_case(case) -> Result:
    import peptacular as pt
    r = Result()
    pep, mono = case['pep'], case['mono']
    n = len(pep['seq'])
    s = model.write_pep(pep)
    has_mod = bool(pep['internal'] or pep['nterm'] or pep['cterm'])
    r.nontrivial = has_mod and n >= 3
    r.classes = [f'mono={mono}'] + (['mods'] if has_mod else []) + (['terminal-mods'] if pep['nterm'] or pep['cterm'] else []) + \
        (['U/O'] if set(pep['seq']) & set('UO') else [])
    charges = [1, 2, 3, 4]
    ions = _ions(pt, s, mono, charges)
    ctx = dict(sequence=s, mono=mono)
    reported = set()
    for t in ALL:
        for (a, b) in _spans(n, t):
            sl = model.m_slice(pep, a, b)
            for z in charges:
                got = ions.get((t, a, b, z))
                if got is None:
                    if (t, 'missing') not in reported:
                        reported.add((t, 'missing'))
                        r.fail('every ion of the series is produced', f'C05/{t}/missing-ion', span=[a, b], charge=z, **ctx)
                    continue
                ref = refmass.ion_mass(sl, t, z, mono)
                d = got - ref
                if _off(d, mono, z):
                    hyd = refchem.atom_mass('H', mono)
                    if abs(d - hyd) <= _tol(mono, z) + 2e-4 and t in ('ax', 'az', 'bx', 'bz'):
                        key = (t, 'H')
                        sig = f'C05/internal/{t}/one-hydrogen-above-terminal-offsets'
                    else:
                        key = (t, 'wrong', z > 1)
                        sig = f'C05/{t}/wrong-offset' + ('/charge>1' if z > 1 and abs((ions.get((t, a, b, 1), 0) - refmass.ion_mass(sl, t, 1, mono))) <= 1.5e-4 else '')
                    if key not in reported:
                        reported.add(key)
                        r.fail('ion mass follows from backbone-cleavage chemistry', sig, ion=t, span=[a, b], charge=z,
                               expected=ref, got=got, diff=d, **ctx)
    # the stated relations, on library values only
    M = pt.mass(s, monoisotopic=mono, charge=0)
    p = refchem.PROTON
    for i in range(1, n):
        b1, y1 = ions.get(('b', 0, i, 1)), ions.get(('y', i, n, 1))
        if b1 is not None and y1 is not None and _off(b1 + y1 - (M + 2 * p), mono, 2):
            r.fail('b_i + y_(n-i) = M + 2 protons', 'C05/relation/b+y', i=i, b=b1, y=y1, M=M, **ctx)
            break
    co, nh3, h2 = (refchem.comp_mass(c, mono) for c in (refchem.CO, refchem.NH3, refchem.H2))
    rel = {'a': ('b', -co), 'c': ('b', nh3), 'x': ('y', co - h2), 'z': ('y', -nh3)}
    for t, (base, off) in rel.items():
        for (a, b) in _spans(n, t):
            v, w = ions.get((t, a, b, 1)), ions.get((base, a, b, 1))
            if v is not None and w is not None and abs(v - (w + off)) > 1e-5:
                r.fail('a = b - CO, c = b + NH3, x = y + CO - H2, z = y - NH3', f'C05/relation/{t}-vs-{base}', span=[a, b], got=v - w,
                       expected=off, **ctx)
                break
    # through mass(ion_type=...) as well
    for t, a, b, z in case['probe']:
        t = ALL[t % len(ALL)]
        spans = _spans(n, t)
        if not spans:
            continue
        a, b = spans[a % len(spans)]
        z = 1 + z % 4
        sl = model.m_slice(pep, a, b)
        got = pt.mass(model.write_pep(sl), ion_type=t, charge=z, monoisotopic=mono)
        ref = refmass.ion_mass(sl, t, z, mono)
        if _off(got - ref, mono, z):
            hyd = refchem.atom_mass('H', mono)
            if abs(got - ref - hyd) <= _tol(mono, z) + 2e-4 and t in ('ax', 'az', 'bx', 'bz'):
                sig = f'C05/internal/{t}/one-hydrogen-above-terminal-offsets'
            else:
                sig = f'C05/mass-ion-type/{t}/wrong-offset'
            r.fail('mass(ion_type=...) follows the same chemistry', sig, fragment=model.write_pep(sl), charge=z, expected=ref, got=got, **ctx)
            break
        fv = ions.get((t, a, b, z))
        if fv is not None and abs(fv - got) > 1e-6:
            r.fail('fragment and mass(ion_type=...) agree', f'C05/fragment-vs-mass/{t}', span=[a, b], charge=z, fragment=fv, mass=got, **ctx)
            break
    # locality: a delta on one residue / terminus moves exactly the ions that contain it
    where, k, delta = case['local']
    q = copy.deepcopy(pep)
    if where == 'residue':
        k = k % n
        d = {i: ms for i, ms in q['internal']}
        d.setdefault(k, []).append([repr(delta), 1])
        q['internal'] = sorted([[i, ms] for i, ms in d.items()])
    elif where == 'nterm':
        q['nterm'] = q['nterm'] + [[repr(delta), 1]]
    else:
        q['cterm'] = q['cterm'] + [[repr(delta), 1]]
    ions2 = _ions(pt, model.write_pep(q), mono, [1, 2])
    for (t, a, b, z), v in ions.items():
        if z > 2:
            continue
        if where == 'residue':
            inside = a <= k < b
        elif where == 'nterm':
            inside = a == 0
        else:
            inside = b == n
        w = ions2.get((t, a, b, z))
        if w is None:
            continue
        exp = delta if inside else 0.0
        if abs((w - v) - exp) > 1e-6:
            r.fail('a modification shifts exactly the ions that contain the modified residue or terminus',
                   f'C05/locality/{where}/' + ('not-shifted' if inside else 'shifted-outside'), ion=t, span=[a, b], charge=z,
                   expected=exp, got=w - v, modified=model.write_pep(q), **ctx)
            break
    return r


def strategy():
    one = gen.mass_mod(('num', 'formula'), max_mult=2)
    pm = gen.pep_model(alphabet=gen.AA20 + 'UO', min_len=2, max_len=15, kinds=('internal', 'nterm', 'cterm'), mod_strategy=one,
                       mod_list=st.lists(one, min_size=1, max_size=2), allow_empty=False)
    return st.fixed_dictionaries({
        'pep': pm, 'mono': st.booleans(),
        'probe': st.lists(st.tuples(st.integers(0, 15), st.integers(0, 200), st.integers(0, 200), st.integers(0, 3)).map(list),
                          min_size=3, max_size=6),
        'local': st.tuples(st.sampled_from(['residue', 'residue', 'nterm', 'cterm']), st.integers(0, 14),
                           st.sampled_from([7.25, -3.5, 100.0])).map(list)})


def parts(tier):
    n = 3000 if tier == 'quick' else 150000
    return [Part(name='ion-chemistry', kind='hyp', check_case=check_case, strategy=strategy, examples=n)]
