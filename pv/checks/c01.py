"""C01 - ProForma text <-> annotation round trip (DESIGN.md section 3, C01)."""
from hypothesis import strategies as st

from pv import gen, model
from pv.runner import Part, Result

ID = 'C01'
TITLE = 'ProForma text and annotation objects are faithful inverses of each other'
RULE = ('case = 1-3 generated peptide models written by the independent writer (+ include_plus flag); '
        'non-trivial = at least two modification kinds present, or an interval, or a multiplier >= 2, or >= 2 chains; '
        'distinct = distinct canonical JSON of the case')
ASSUMPTIONS = [
    'expected values come from pv/model.py (own writer and literal canonicaliser), not from the library',
    'three bundled vocabulary names with unbalanced square brackets cannot be carried by the bracket grammar and are excluded by construction',
    'modification names containing ">" inside <...> global rules are generated rarely; their rejection is bucketed under one signature',
]


def _kinds_present(p):
    ks = [k for k in ('labile', 'static', 'isotope', 'unknown', 'nterm', 'cterm', 'internal') if p[k]]
    if any(iv[3] for iv in p['intervals']):
        ks.append('interval-mods')
    return ks


def _all_mods(p):
    for k in ('labile', 'unknown', 'nterm', 'cterm'):
        yield from p[k]
    for _i, ms in p['internal']:
        yield from ms
    for iv in p['intervals']:
        yield from iv[3]
    for ms, _t in p['static']:
        yield from ms


def check_case(case) -> Result:
    import peptacular as pt
    from peptacular.proforma.proforma_parser import ProFormaAnnotation, MultiProFormaAnnotation
    r = Result()
    chains, links, styles, plus = case['chains'], case['links'], case['styles'], case['plus']
    s = model.write_multi(chains, links, styles)
    kinds = set()
    for p in chains:
        kinds.update(_kinds_present(p))
    has_interval = any(p['intervals'] for p in chains)
    has_mult = any(m[1] >= 2 for p in chains for m in _all_mods(p))
    r.nontrivial = len(kinds) >= 2 or has_interval or has_mult or len(chains) >= 2
    r.classes = sorted(kinds) + (['interval'] if has_interval else []) + (['mult>=2'] if has_mult else []) + \
        [f'chains={len(chains)}'] + (['crosslink'] if any(links) else []) + \
        (['charge'] if any(p['charge'] is not None for p in chains) else []) + \
        (['adducts'] if any(p['adducts'] is not None for p in chains) else []) + [f'plus={plus}']
    gt_in_static = any('>' in m[0] for p in chains for ms, _t in p['static'] for m in ms)
    if gt_in_static:
        r.classes.append('static-text-with-gt')

    try:
        a = pt.parse(s)
    except ValueError as e:
        if gt_in_static:
            r.fail('parse accepts every derivable string', 'C01/parse-rejects/static-mod-text-contains-gt', string=s, error=str(e)[:200])
        else:
            r.fail('parse accepts every derivable string', 'C01/parse-rejects/valid-string', string=s, error=str(e)[:300])
        return r

    if len(chains) == 1:
        if not isinstance(a, ProFormaAnnotation):
            r.fail('single chain parses to one annotation', 'C01/parse-type/single', string=s, got=type(a).__name__)
            return r
        annots, conns = [a], []
    else:
        if not isinstance(a, MultiProFormaAnnotation):
            r.fail('multi chain parses to a multi annotation', 'C01/parse-type/multi', string=s, got=type(a).__name__)
            return r
        annots, conns = list(a.annotations), list(a.connections)
        if len(annots) != len(chains):
            r.fail('number of chains', 'C01/parse-chains/count', string=s, expected=len(chains), got=len(annots))
            return r
        if [bool(c) for c in conns] != [bool(x) for x in links]:
            r.fail('chain links', 'C01/parse-chains/links', string=s, expected=links, got=conns)

    # (i) parse is exact
    for p, an in zip(chains, annots):
        exp = model.expected(p)
        obs = model.project(an)
        if exp != obs:
            for f in model.diff_fields(exp, obs):
                sig = f'C01/parse-field/{f}'
                if gt_in_static and f in ('static', 'isotope', 'seq'):
                    sig = 'C01/parse-rejects/static-mod-text-contains-gt'
                r.fail('parse yields exactly what the notation denotes', sig,
                       string=s, field=f, expected=exp.get(f), got=obs.get(f))

    # (ii) serialize -> parse -> equal, and serialize is a fixed point
    try:
        s2 = pt.serialize(a, plus)
    except Exception as e:  # noqa
        r.fail('serialize returns a string', f'C01/serialize-raises/{type(e).__name__}', string=s, error=str(e)[:200])
        return r
    if not isinstance(s2, str):
        r.fail('serialize returns a string', 'C01/serialize-type', string=s, got=type(s2).__name__)
        return r
    b = None
    try:
        b = pt.parse(s2)
    except ValueError as e:
        if any(links) and '\\\\' in s2:
            # known deviation: '//' is written as two backslashes, which parse() rejects.  Record it under its own
            # signature and keep checking the rest of the clause on the string with the separator spelled '//'.
            r.fail('serialized string parses back', 'C01/reparse-rejects/crosslink-separator', string=s, serialized=s2,
                   error=str(e)[:200])
            try:
                b = pt.parse(s2.replace('\\\\', '//'))
            except ValueError as e2:
                if gt_in_static:
                    r.fail('serialized string parses back', 'C01/parse-rejects/static-mod-text-contains-gt', string=s, serialized=s2)
                else:
                    r.fail('serialized string parses back', 'C01/reparse-rejects/other', string=s, serialized=s2, error=str(e2)[:300])
                return r
        elif gt_in_static:
            r.fail('serialized string parses back', 'C01/parse-rejects/static-mod-text-contains-gt', string=s, serialized=s2)
            return r
        else:
            r.fail('serialized string parses back', 'C01/reparse-rejects/other', string=s, serialized=s2, error=str(e)[:300])
            return r
    if type(b) is not type(a):
        r.fail('serialized string parses back to the same kind of object', 'C01/reparse-type', string=s, serialized=s2)
        return r
    b_annots = [b] if len(chains) == 1 else list(b.annotations)
    if len(b_annots) != len(annots):
        r.fail('serialized string parses back to an equal annotation', 'C01/reparse-chains/count', string=s, serialized=s2)
        return r
    if len(chains) > 1 and list(b.connections) != conns:
        r.fail('serialized string parses back to an equal annotation', 'C01/reparse-chains/links', string=s, serialized=s2)
    for an, bn in zip(annots, b_annots):
        pa, pb = model.project(an), model.project(bn)
        if pa != pb:
            for f in model.diff_fields(pa, pb):
                r.fail('serialized string parses back to an equal annotation', f'C01/reparse-field/{f}', string=s,
                       serialized=s2, field=f, before=pa.get(f), after=pb.get(f))
        elif not (bn == an) or not (an == bn):
            r.fail('serialized string parses back to an equal annotation', 'C01/reparse-eq/library-eq-false', string=s,
                   serialized=s2, keep_empty_before=model.project(an, True), keep_empty_after=model.project(bn, True))
    if len(chains) > 1 and not (b == a):
        if all(x == y for x, y in zip(annots, b_annots)) and list(b.connections) == conns:
            r.fail('multi annotation equality', 'C01/reparse-eq/multi-eq-false', string=s, serialized=s2)
    try:
        s3 = pt.serialize(b, plus)
    except Exception as e:  # noqa
        r.fail('re-serialization', f'C01/reserialize-raises/{type(e).__name__}', string=s, serialized=s2)
        return r
    if s3 != s2:
        r.fail('re-serializes to itself', 'C01/reserialize-differs', string=s, first=s2, second=s3)
    # the other include_plus value must denote the same annotation
    try:
        s4 = pt.serialize(a, not plus)
        c = pt.parse(s4.replace('\\\\', '//') if any(links) else s4)
        c_annots = [c] if len(chains) == 1 else list(c.annotations)
        if [model.project(x) for x in c_annots] != [model.project(x) for x in annots]:
            r.fail('include_plus does not change the denoted annotation', 'C01/include-plus-changes-annotation', string=s,
                   with_plus=s4 if not plus else s2, without=s2 if not plus else s4)
    except ValueError:
        pass  # rejection of a serialized string is reported by the clause above
    return r


def case_strategy(max_len=30):
    long_pep = gen.pep_model(max_len=max_len, static_max_mult=4, static_mod_text=gen.mod_text(True))
    short_pep = gen.pep_model(max_len=12, static_max_mult=4, static_mod_text=gen.mod_text(True))
    gt_names = st.sampled_from([e['name'] for e in gen.vocab()['unimod'] if '>' in e['name']])
    sty = gen.style()

    @st.composite
    def strat(draw):
        n = draw(st.sampled_from([1, 1, 1, 1, 2, 2, 3]))
        chains = [draw(long_pep if n == 1 else short_pep) for _ in range(n)]
        # '>' inside a global rule is a known deviation: generate it rarely so it does not dominate
        if gen.rare(draw, 40):
            tgt = chains[0]
            if tgt['seq']:
                tgt['static'] = [[[[draw(gt_names), 1]], [tgt['seq'][0]]]]
        # numerals whose float repr() uses 'e+' (1e16 and above) and the integer 0: C01 compares no masses, so they are harmless here
        if gen.rare(draw, 12) and chains[0]['seq']:  # (a peptide without residues carries no modifications)
            tgt = chains[0]
            big = draw(st.sampled_from(['10000000000000000.0', '+12345678901234567.0', '-250000000000000000000.0', '0', '+0', '0.0',
                                        '100000000000000000000', '1234567890123456789012']))
            slot = draw(st.sampled_from(['nterm', 'cterm', 'labile', 'unknown', 'internal']))
            if slot == 'internal':
                if tgt['seq']:
                    tgt['internal'] = [[0, [[big, 1]]]] + [x for x in tgt['internal'] if x[0] != 0]
            else:
                tgt[slot] = [[big, draw(st.sampled_from([1, 1, 2]))]]
        if n > 1:
            for c in chains:
                if not c['seq']:
                    c['seq'] = 'A'
        links = [draw(st.booleans()) for _ in range(n - 1)]
        styles = [draw(sty) for _ in range(n)]
        return {'chains': chains, 'links': links, 'styles': styles, 'plus': draw(st.booleans())}
    return strat()


def parts(tier):
    n = 8000 if tier == 'quick' else 400000
    return [Part(name='roundtrip', kind='hyp', check_case=check_case, strategy=case_strategy, examples=n)]
