"""C20 - modification dictionaries, copies and equality."""
import copy

from hypothesis import strategies as st

from pv import gen, model
from pv.runner import Part, Result

ID = 'C20'
TITLE = 'Modification dictionaries and annotation copies reconstruct the same peptide'
RULE = ('case = generated annotation (all kinds, several modifications per position, multipliers) + one single-field '
        'perturbation selected by index; non-trivial = at least three modification kinds present and one position '
        'with >= 2 modifications')
ASSUMPTIONS = ['perturbations are applied on the plain-data model and always change what the notation denotes (a fresh sentinel value / a different position)']

SENT = 'Zzz-sentinel'


def _positions(p):
    """list of (kind, locator) of every modification list in the model"""
    out = []
    for k in ('labile', 'unknown', 'nterm', 'cterm'):
        if p[k]:
            out.append((k, None))
    for i, (_idx, _ms) in enumerate(p['internal']):
        out.append(('internal', i))
    for i, iv in enumerate(p['intervals']):
        if iv[3]:
            out.append(('intervals', i))
    return out


def _mods_at(p, pos):
    k, i = pos
    if k == 'internal':
        return p['internal'][i][1]
    if k == 'intervals':
        return p['intervals'][i][3]
    return p[k]


def perturbations(p):
    """list of (name, perturbed model); every entry denotes a different annotation"""
    out = []
    n = len(p['seq'])
    pos = _positions(p)
    for ps in pos[:6]:
        q = copy.deepcopy(p)
        _mods_at(q, ps)[0][0] = SENT
        out.append((f'value/{ps[0]}', q))
        q = copy.deepcopy(p)
        _mods_at(q, ps)[0][1] += 1
        out.append((f'multiplier/{ps[0]}', q))
        q = copy.deepcopy(p)
        ms = _mods_at(q, ps)
        ms.append(copy.deepcopy(ms[0]))
        out.append((f'duplicate/{ps[0]}', q))
        q = copy.deepcopy(p)
        ms = _mods_at(q, ps)
        if len(ms) > 1:
            ms.pop(0)
            out.append((f'drop/{ps[0]}', q))
        else:
            k, i = ps
            if k == 'internal':
                q['internal'].pop(i)
            elif k == 'intervals':
                q['intervals'][i][3] = []
            else:
                q[k] = []
            out.append((f'drop/{ps[0]}', q))
    # move an internal modification to a free residue
    if p['internal'] and n >= 2:
        used = {i for i, _ in p['internal']}
        free = [i for i in range(n) if i not in used]
        if free:
            q = copy.deepcopy(p)
            q['internal'][0][0] = free[0]
            q['internal'].sort()
            out.append(('position/internal', q))
    if p['intervals']:
        q = copy.deepcopy(p)
        q['intervals'][0][2] = not q['intervals'][0][2]
        out.append(('interval/ambiguity-flag', q))
        s, e = p['intervals'][0][0], p['intervals'][0][1]
        nxt = p['intervals'][1][0] if len(p['intervals']) > 1 else n
        if e - s >= 2:
            q = copy.deepcopy(p)
            q['intervals'][0][1] = e - 1
            out.append(('interval/end', q))
            q = copy.deepcopy(p)
            q['intervals'][0][0] = s + 1
            out.append(('interval/start', q))
        elif e < nxt:
            q = copy.deepcopy(p)
            q['intervals'][0][1] = e + 1
            out.append(('interval/end', q))
        q = copy.deepcopy(p)
        q['intervals'].pop(0)
        out.append(('interval/drop', q))
    q = copy.deepcopy(p)
    q['charge'] = 3 if p['charge'] != 3 else 2
    q['adducts'] = p['adducts']
    out.append(('charge', q))
    if p['adducts'] is None:
        # charge 0 is a charge state, "no charge" is none: the two differ (and a charged peptide differs from both)
        q = copy.deepcopy(p)
        q['charge'] = 0 if p['charge'] != 0 else None
        out.append(('charge/zero-vs-none', q))
    if p['charge'] is not None:
        q = copy.deepcopy(p)
        q['adducts'] = '+H+' if p['adducts'] != '+H+' else '+Na+'
        out.append(('adducts', q))
    if p['static']:
        q = copy.deepcopy(p)
        q['static'][0][0][0][0] = SENT
        out.append(('value/static', q))
        q = copy.deepcopy(p)
        q['static'].pop(0)
        out.append(('drop/static', q))
    else:
        q = copy.deepcopy(p)
        q['static'] = [[[[SENT, 1]], ['A']]]
        out.append(('add/static', q))
    if p['isotope']:
        q = copy.deepcopy(p)
        q['isotope'][0] = '33S'
        out.append(('value/isotope', q))
    else:
        q = copy.deepcopy(p)
        q['isotope'] = ['13C']
        out.append(('add/isotope', q))
    if n:
        q = copy.deepcopy(p)
        q['seq'] = ('G' if p['seq'][0] != 'G' else 'A') + p['seq'][1:]
        out.append(('residue', q))
    if not p['labile']:
        q = copy.deepcopy(p)
        q['labile'] = [[SENT, 1]]
        out.append(('add/labile', q))
    return out


def permuted(p):
    """same annotation with the modification order at every position reversed"""
    q = copy.deepcopy(p)
    for ps in _positions(q):
        _mods_at(q, ps).reverse()
    return q


def check_case(case) -> Result:
    import peptacular as pt
    r = Result()
    p = case['pep']
    s0 = model.write_pep(p)
    a = pt.parse(s0)
    s = a.serialize()  # canonical spelling
    kinds = [k for k in ('labile', 'static', 'isotope', 'unknown', 'nterm', 'cterm', 'internal', 'intervals') if p[k]]
    multi = any(len(_mods_at(p, ps)) >= 2 for ps in _positions(p))
    r.nontrivial = len(kinds) >= 3 and multi
    r.classes = kinds + (['multi-mod-position'] if multi else []) + (['charge'] if p['charge'] is not None else [])
    snap = model.project(a, True)

    # get/add and pop/add round trips
    mods = pt.get_mods(s)
    got = pt.add_mods(pt.strip_mods(s), mods)
    if got != s:
        r.fail('add_mods(strip_mods(s), get_mods(s)) == s', 'C20/get-add-roundtrip', s=s, got=got)
    # ... also from the string as it was written (s is its canonical re-serialization): the rebuilt string denotes the same peptide
    try:
        rebuilt = pt.add_mods(pt.strip_mods(s0), pt.get_mods(s0))
        if not (pt.parse(rebuilt) == pt.parse(s0)):
            r.fail('add_mods(strip_mods(s), get_mods(s)) denotes the original peptide', 'C20/get-add-roundtrip/written-string', s=s0, got=rebuilt)
    except ValueError as e:
        r.fail('add_mods(strip_mods(s), get_mods(s)) denotes the original peptide', 'C20/get-add-roundtrip/written-string', s=s0, error=str(e)[:100])
    seq, mods2 = pt.pop_mods(s)
    if seq != p['seq']:
        r.fail('pop_mods returns the residues', 'C20/pop-mods-sequence', s=s, got=seq)
    got = pt.add_mods(seq, mods2)
    if got != s:
        r.fail('add_mods(*pop_mods(s)) == s', 'C20/pop-add-roundtrip', s=s, got=got)
    # the annotation's own pair: pop_mods() takes the modification dictionary out, add_mod_dict() puts it back
    a3 = a.copy()
    d3 = a3.pop_mods()
    if a3.serialize() != p['seq'] or a3.has_mods():
        r.fail('stripping removes every modification and nothing else', 'C20/annotation-pop_mods-leaves-mods', s=s, got=a3.serialize())
    a3.add_mod_dict(d3)
    if not (a3 == a):
        r.fail('adding the modification dictionary to the stripped peptide reproduces it', 'C20/annotation-pop-add-roundtrip', s=s,
               got=a3.serialize())
    # ... and the dictionary popped from the annotation is accepted by the string-level add_mods as well
    try:
        rebuilt2 = pt.add_mods(p['seq'], a.copy().pop_mods())
        if not (pt.parse(rebuilt2) == a):
            r.fail('adding the modification dictionary to the stripped peptide reproduces it', 'C20/add_mods-of-annotation-pop_mods', s=s,
                   got=rebuilt2)
    except ValueError as e:
        r.fail('adding the modification dictionary to the stripped peptide reproduces it', 'C20/add_mods-of-annotation-pop_mods', s=s,
               error=str(e)[:120])
    if pt.strip_mods(s) != p['seq']:
        r.fail('stripping removes every modification and nothing else', 'C20/strip_mods', s=s, got=pt.strip_mods(s))
    a_ip = a.copy()
    a_ip.strip(inplace=True)
    p_ip = model.project(a_ip, True)
    if a_ip.sequence != p['seq'] or any(p_ip[k] not in (None, [], {}) for k in p_ip if k != 'seq'):
        r.fail('stripping removes every modification and nothing else', 'C20/strip-inplace-leaves-something', s=s,
               left={k: v for k, v in p_ip.items() if k != 'seq' and v not in (None, [], {})})
    st_a = a.strip()
    if st_a.sequence != p['seq'] or st_a.has_mods() or model.project(a, True) != snap:
        r.fail('strip() returns the bare residues and leaves the source alone', 'C20/strip-annotation', s=s)

    # create_annotation(**dict())
    b = pt.create_annotation(**a.dict())
    if not (b == a) or not (a == b) or model.project(b) != model.project(a):
        r.fail('create_annotation(**a.dict()) == a', 'C20/create-from-dict', s=s, got=b.serialize())

    # copy: equal and independent
    c = a.copy()
    if not (c == a) or model.project(c, True) != snap:
        r.fail('copy equals its source', 'C20/copy-not-equal', s=s)
    c2 = a.copy()
    _scribble(c2)
    if model.project(a, True) != snap:
        r.fail('mutating a copy leaves the source unchanged', 'C20/copy-shares-state/copy-to-source', s=s)
    c3 = a.copy()
    snap3 = model.project(c3, True)
    a2 = pt.parse(s0)
    c4 = a2.copy()
    _scribble(a2)
    if model.project(c4, True) != snap3:
        r.fail('mutating the source leaves the copy unchanged', 'C20/copy-shares-state/source-to-copy', s=s)
    d = a.dict()
    _scribble_dict(d)
    if model.project(a, True) != snap:
        r.fail('editing dict() output leaves the annotation unchanged', 'C20/dict-shares-state', s=s)

    # equality: reflexive, symmetric, order-insensitive at one position
    if not (a == a):
        r.fail('equality is reflexive', 'C20/eq-not-reflexive', s=s)
    a_same = pt.parse(s0)
    if not (a == a_same) or not (a_same == a):
        r.fail('two parses of the same string are equal', 'C20/eq-same-string', s=s)
    if multi:
        pa = pt.parse(model.write_pep(permuted(p)))
        if not (a == pa) or not (pa == a):
            r.fail('equality ignores the order of modifications at one position', 'C20/eq-order-sensitive', s=s,
                   permuted=pa.serialize())

    # ... and sensitive to every other difference
    perts = perturbations(p)
    pick = case['pick']
    chosen = perts if case['all'] else [perts[i % len(perts)] for i in pick]
    for name, q in chosen:
        sq = model.write_pep(q)
        b = pt.parse(sq)
        e1, e2 = (a == b), (b == a)
        if e1 or e2:
            r.fail('equality is sensitive to every difference in residues, values, multipliers, positions, intervals, charge',
                   f'C20/eq-insensitive/{name}', s=s, other=sq, forward=e1, backward=e2)
        if e1 != e2:
            r.fail('equality is symmetric', f'C20/eq-asymmetric/{name}', s=s, other=sq)
    return r


def _scribble(a):
    """edit every mutable container reachable through the public fields"""
    from peptacular.proforma.proforma_dataclasses import Mod
    for name in ('labile_mods', 'unknown_mods', 'nterm_mods', 'cterm_mods', 'isotope_mods', 'static_mods', 'charge_adducts'):
        v = getattr(a, name)
        if v is not None:
            for m in v:
                m.val = 'scribbled'
                m.mult = 77
            v.append(Mod('scribble', 1))
    if a.internal_mods is not None:
        for k in list(a.internal_mods):
            for m in a.internal_mods[k]:
                m.val = 'scribbled'
                m.mult = 77
            a.internal_mods[k].append(Mod('scribble', 1))
        a.internal_mods[9999] = [Mod('x', 1)]
    if a.intervals is not None:
        for iv in a.intervals:
            iv.start += 1000
            if iv.mods is not None:
                for m in iv.mods:  # the Mod objects inside an interval too, not only the list
                    m.val = 'scribbled'
                    m.mult = 77
                iv.mods.append(Mod('scribble', 1))
        a.intervals.append(a.intervals[0])
    a.charge = 42


def _scribble_dict(d):
    from peptacular.proforma.proforma_dataclasses import Mod
    for k, v in d.items():
        if isinstance(v, list):
            for x in v:
                if isinstance(x, Mod):
                    x.val = 'scribbled'
                else:
                    x.start = 999
                    if x.mods:
                        x.mods[0].val = 'scribbled'
            v.append(Mod('scribble', 1))
        elif isinstance(v, dict):
            for kk in v:
                v[kk].append(Mod('scribble', 1))
                v[kk][0].val = 'scribbled'


def strategy():
    pm = gen.pep_model(max_len=20, allow_empty=False)
    rich = gen.pep_model(alphabet='ACDEGKMST', min_len=3, max_len=12, allow_empty=False,
                         mod_list=st.lists(gen.mod(), min_size=2, max_size=3))
    # the same number spelled as an integer and as a decimal, with different multipliers, at one position (the library's
    # modification ordering is not a total order on these, so anything that sorts them depends on the order written)
    twin = st.sampled_from([['100', 2], ['100.0', 1], ['1', 3], ['1.0', 1], ['1', 1], ['1.0', 2], ['0', 2], ['-0.0', 1], ['Oxidation', 1],
                            ['15', 1], ['15.0', 3], ['nan', 1], ['NAN', 2], ['inf', 1]])
    twins = gen.pep_model(alphabet='ACDEGKMST', min_len=3, max_len=10, allow_empty=False, mod_strategy=twin,
                          mod_list=st.lists(twin, min_size=2, max_size=3, unique_by=lambda m: (m[0], m[1])),
                          kinds=('internal', 'intervals', 'nterm', 'cterm', 'unknown', 'labile'))
    def zero_charge(p):
        # a charge state of 0 is a value, not "no charge" ('/0' parses to charge 0)
        q = dict(p)
        if q.get('charge') is not None:
            q['charge'] = 0
        return q
    pm_zero = gen.pep_model(max_len=12, allow_empty=False).map(zero_charge)
    return st.fixed_dictionaries({'pep': st.one_of(pm, pm, rich, rich, twins, twins, pm_zero), 'pick': st.lists(st.integers(0, 60), min_size=4, max_size=4),
                                  'all': st.booleans()})


# ---- every documented form of a dictionary value, in every slot ------------------------------------------------

FORM_VALUES = ['Phospho', 0, 0.0, 1.5, -3, ['Phospho'], [0], ['Phospho', 2.5], 'MOD', [], None]   # 'MOD' = a Mod object; [] and None = no modifications
FORM_SLOTS = ['labile', 'unknown', 'nterm', 'cterm', 'internal', 'intervals']
FORM_BASES = [dict.fromkeys(FORM_SLOTS, ()),
              {'labile': ('Glycan:Hex',), 'unknown': ('Formula:C',), 'nterm': ('Acetyl',), 'cterm': ('Amidated',), 'internal': ('Oxidation',),
               'intervals': ('Methyl',)}]


def _form_string(mods):
    """'P(EP)TIDE' with the given modification texts per slot (internal = residue 4, interval = residues 1..2)"""
    b = lambda xs: ''.join(f'[{x}]' for x in xs)  # noqa
    return ''.join('{' + str(x) + '}' for x in mods['labile']) + (b(mods['unknown']) + '?' if mods['unknown'] else '') + \
        (b(mods['nterm']) + '-' if mods['nterm'] else '') + 'P(EP)' + b(mods['intervals']) + 'TI' + b(mods['internal']) + 'DE' + \
        ('-' + b(mods['cterm']) if mods['cterm'] else '')


def check_forms(case) -> Result:
    """a dictionary value may be a single value, a list of values or Mod objects; with append the modifications are added to those
    present, without it they replace them - in every slot, through add_mods (string) and add_mod_dict (annotation)"""
    import peptacular as pt
    from peptacular.proforma.proforma_dataclasses import Mod
    r = Result()
    slot, val, base, append, path = case['slot'], FORM_VALUES[case['value']], FORM_BASES[case['base']], case['append'], case['path']
    r.nontrivial = bool(base[slot]) and append
    r.classes = [f'slot={slot}', f'path={path}', f'append={append}', 'value=' + type(val).__name__]
    arg = Mod('Phospho', 2) if val == 'MOD' else copy.deepcopy(val)
    texts = ['Phospho]^2['] if val == 'MOD' else [] if val is None else [str(v) for v in (val if isinstance(val, list) else [val])]
    texts = ['Phospho'] if val == 'MOD' else texts
    start = _form_string(base)
    exp_mods = {k: list(v) for k, v in base.items()}
    exp_mods[slot] = (exp_mods[slot] if append else []) + texts
    expected = _form_string(exp_mods)
    if val == 'MOD':
        expected = expected.replace('[Phospho]', '[Phospho]^2').replace('{Phospho}', '{Phospho}^2')
    d = {'internal': {4: arg}} if slot == 'internal' and path == 'add_mod_dict' else \
        {4: arg} if slot == 'internal' else {'intervals': (1, 3, False, arg)} if slot == 'intervals' else {slot: arg}
    if slot == 'internal' and path == 'add_mod_dict':
        d = {4: arg}
    ctx = dict(start=start, dictionary=repr(d), append=append, path=path, expected=expected)
    if slot == 'intervals' and append:
        # appending adds a second interval over the same residues, which the notation does not allow: only replacing is asked
        r.nontrivial = False
        return r
    try:
        if path == 'add_mods':
            got = pt.add_mods(start, d, append=append)
        else:
            a = pt.parse(start)
            a.add_mod_dict(d, append=append)
            got = a.serialize()
        same = pt.parse(got) == pt.parse(expected) and model.project(pt.parse(got)) == model.project(pt.parse(expected))
    except ValueError as e:
        r.fail('a documented value form is accepted in every slot', f'C20/forms/{slot}/raises', error=str(e)[:120], **ctx)
        return r
    if not same:
        r.fail('adding a dictionary of modifications gives the peptide that carries them (single value, list or Mod objects alike)',
               f'C20/forms/{slot}/' + ('append' if append else 'replace') + '/' + ('scalar' if not isinstance(val, list) else 'list'), got=got, **ctx)
    return r


def form_cases():
    for slot in FORM_SLOTS:
        for vi in range(len(FORM_VALUES)):
            if FORM_VALUES[vi] is None and slot != 'intervals':
                continue  # None as "no modifications" is the form of an interval tuple; add_mods rejects it elsewhere (ValueError)
            for base in (0, 1):
                for append in (False, True):
                    for path in ('add_mods', 'add_mod_dict'):
                        yield {'slot': slot, 'value': vi, 'base': base, 'append': append, 'path': path}


def parts(tier):
    n = 4000 if tier == 'quick' else 150000
    return [Part(name='dict-copy-eq', kind='hyp', check_case=check_case, strategy=strategy, examples=n),
            Part(name='value-forms', kind='enum', check_case=check_forms, cases=form_cases, exhaustive=True, shards=8,
                 space='6 slots x 11 value forms (text, 0, 0.0, decimal, negative, lists, Mod object, empty list, None) x empty / occupied slot x append or replace x add_mods (string) / add_mod_dict (annotation)')]
