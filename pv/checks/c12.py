"""C12 - global modification rules equal the explicit per-residue form."""
import copy

from hypothesis import strategies as st

from pv import gen, model, refchem, refmass, refmods
from pv.runner import Part, Result

ID = 'C12'
TITLE = 'Global modification rules equal the explicit per-residue form'
RULE = ('case = residue string of length 1..20 with optional pre-existing modifications x 1-2 static rules (1-3 targets among '
        'residues / N-Term / C-Term, 1-2 numeric, named or formula modifications) x isotope labels from {13C,15N,18O,17O,34S,D,T,2H} '
        '(single or pair) x ion types p,b,y,c,z x use_isotope_on_mods; non-trivial = a rule target occurring >= 2 times or a '
        'terminal target; for labels at least one atom affected')
ASSUMPTIONS = [
    'explicit form E = rule applied occurrence by occurrence on the plain-data model (pv/model.expand_static)',
    'atom counts for the label clause come from pv/refchem.py residue compositions and backbone-cleavage offsets; hydrogen labels only for the neutral precursor',
    'fragment ions of labelled peptides are compared through mass(ion_type=...) (the fragmenter itself is covered by C04)',
]

IONS = ['p', 'b', 'y', 'c', 'z']
LABELS = ['13C', '15N', '18O', '17O', '34S', 'D', 'T', '2H']


def _el(label):
    return 'H' if label in ('D', 'T', '2H') else label.lstrip('0123456789')


def check_static(case) -> Result:
    import peptacular as pt
    r = Result()
    pep = case['pep']
    s = model.write_pep(pep)
    E = model.expand_static(pep)
    e = model.write_pep(E)
    seq = pep['seq']
    term = any(t in ('N-Term', 'C-Term') for _m, tg in pep['static'] for t in tg)
    multi = any(seq.count(t) >= 2 for _m, tg in pep['static'] for t in tg if len(t) == 1)
    r.nontrivial = term or multi
    r.classes = (['terminal-target'] if term else []) + (['repeated-target'] if multi else []) + \
        (['pre-modified'] if pep['internal'] or pep['nterm'] or pep['cterm'] else []) + [f'rules={len(pep["static"])}']
    ctx = dict(rule_form=s, explicit_form=e)
    for mono in (True, False):
        for ion in IONS:
            z = 0 if ion == 'p' else 1
            m1 = pt.mass(s, ion_type=ion, charge=z, monoisotopic=mono)
            m2 = pt.mass(e, ion_type=ion, charge=z, monoisotopic=mono)
            if abs(m1 - m2) > 1e-6:
                r.fail('same mass as the explicit form', f'C12/mass/{ion}' + ('' if mono else '/average'), rule=m1, explicit=m2, **ctx)
    c1, d1 = pt.comp_mass(s)
    c2, d2 = pt.comp_mass(e)
    if {k: v for k, v in c1.items() if v} != {k: v for k, v in c2.items() if v} or abs(d1 - d2) > 1e-9:
        r.fail('same composition as the explicit form', 'C12/comp', rule=[c1, d1], explicit=[c2, d2], **ctx)
    if term:
        # ProForma 2.0 spells the terminal targets 'N-term' / 'C-term' (the library writes 'N-Term' / 'C-Term'): same rule
        s_spec = s.replace('N-Term', 'N-term').replace('C-Term', 'C-term')
        for mono in (True, False):
            m1 = pt.mass(s_spec, monoisotopic=mono)
            m2 = pt.mass(e, monoisotopic=mono)
            if abs(m1 - m2) > 1e-6:
                r.fail('same mass as the explicit form', 'C12/mass/terminal-target-in-ProForma-spelling-ignored' + ('' if mono else '/average'),
                       rule=m1, explicit=m2, rule_form_spec_spelling=s_spec, **ctx)
                break
        c3, d3 = pt.comp_mass(s_spec)
        if {k: v for k, v in c3.items() if v} != {k: v for k, v in c2.items() if v} or abs(d3 - d2) > 1e-9:
            r.fail('same composition as the explicit form', 'C12/comp/terminal-target-in-ProForma-spelling-ignored', rule=[c3, d3],
                   explicit=[c2, d2], rule_form_spec_spelling=s_spec, **ctx)
        if pt.condense_static_mods(s_spec) != pt.condense_static_mods(s):
            r.fail('condensing the rule produces the explicit form', 'C12/condense/terminal-target-in-ProForma-spelling-ignored',
                   got=pt.condense_static_mods(s_spec), expected=pt.condense_static_mods(s), **ctx)
        fs1 = [(f.start, f.end, round(f.mass, 6)) for f in pt.fragment(s_spec, ['b', 'y'], [1])]
        fs2 = [(f.start, f.end, round(f.mass, 6)) for f in pt.fragment(s, ['b', 'y'], [1])]
        if fs1 != fs2:
            r.fail('same fragment ions as the explicit form', 'C12/fragment/terminal-target-in-ProForma-spelling-ignored',
                   rule_form_spec_spelling=s_spec, **ctx)
    k1, k2 = pt.count_residues(s), pt.count_residues(e)
    if dict(k1) != dict(k2):
        r.fail('same modified-residue counts as the explicit form', 'C12/count_residues', rule=dict(k1), explicit=dict(k2), **ctx)
    cond = pt.condense_static_mods(s)
    try:
        obs = model.sorted_proj(model.project(pt.parse(cond)))
        exp = model.sorted_proj(model.expected(E))
        if obs != exp:
            r.fail('condensing the rule produces exactly the explicit form', 'C12/condense/' + '+'.join(model.diff_fields(exp, obs)),
                   condensed=cond, **ctx)
    except ValueError as err:
        r.fail('the condensed form parses', 'C12/condense/does-not-parse', condensed=cond, error=str(err)[:100], **ctx)
    # fragment ions
    per = 0.0
    for ms, tg in pep['static']:
        per += refmods.mods_mass(ms, True) * sum(1 for t in tg if t in ('N-Term', 'C-Term'))
    f1 = {(f.ion_type, f.start, f.end): f.mass for f in pt.fragment(s, ['b', 'y', 'c', 'z'], 1)}
    f2 = {(f.ion_type, f.start, f.end): f.mass for f in pt.fragment(e, ['b', 'y', 'c', 'z'], 1)}
    if set(f1) != set(f2):
        r.fail('same fragment ions as the explicit form', 'C12/fragment/ion-set', **ctx)
    else:
        for key in sorted(f1):
            d = f1[key] - f2[key]
            if abs(d) > 1e-6:
                t, a, b = key
                # explicit form: a terminal rule sits on the terminus, so only ions containing that terminus carry it once
                nt = sum(refmods.mods_mass(ms, True) for ms, tg in pep['static'] if 'N-Term' in tg)
                ct = sum(refmods.mods_mass(ms, True) for ms, tg in pep['static'] if 'C-Term' in tg)
                has = (nt if a == 0 else 0.0) + (ct if b == len(seq) else 0.0)
                quirk = per * (b - a) - has
                sig = f'C12/fragment/{t}'
                r.fail('same fragment ions as the explicit form', sig, ion=t, span=[a, b], rule=f1[key], explicit=f2[key], diff=d, **ctx)
                break
    return r


def check_label(case) -> Result:
    import peptacular as pt
    r = Result()
    pep, labels, on_mods, mono = case['pep'], case['labels'], case['on_mods'], case['mono']
    base = copy.deepcopy(pep)
    base['isotope'] = []
    lab = copy.deepcopy(pep)
    lab['isotope'] = list(labels)
    s0, s1 = model.write_pep(base), model.write_pep(lab)
    mods = refmass.all_mods(base)
    mcomp, _delta = refmods.mods_comp(mods)
    hyd = any(_el(L) == 'H' for L in labels)
    affected = False
    ctx = dict(unlabelled=s0, labelled=s1, use_isotope_on_mods=on_mods, mono=mono)
    for ion in IONS:
        for z in ([0] if ion == 'p' or hyd else [1, 2]):
            comp = refchem.seq_comp(base['seq'])
            if ion == 'p':
                comp = refchem.add_comp(comp, refchem.WATER)
            else:
                comp = refchem.add_comp(comp, refmass.ION_OFFSET[ion])
            exp = 0.0
            for L in labels:
                el = _el(L)
                n = comp.get(el, 0) + (mcomp.get(el, 0) if on_mods else 0)
                if n:
                    affected = True
                exp += n * (refchem.atom_mass(L, mono) - refchem.atom_mass(el, mono))
            kw = dict(ion_type=ion, charge=z, monoisotopic=mono)
            m0 = pt.mass(s0, **kw)
            m1 = pt.mass(s1, use_isotope_on_mods=on_mods, **kw)
            if not on_mods and abs(pt.mass(s1, **kw) - m1) > 1e-9:
                r.fail('a label reaches atoms inside modifications only when explicitly requested', 'C12/label/default-reaches-atoms-inside-modifications', **ctx)
            # average mode: the unlabelled mass uses tabulated average masses of named modifications, the labelled one their
            # compositions (C03 tolerance: 1e-3 per tabulated modification + 5 ppm)
            n_tab = sum(mm * refmods.resolve(t).get('units', 1) for t, mm in mods if refmods.resolve(t)['kind'] in ('unimod', 'psimod', 'glycan'))  # a glycan uses one table entry per monosaccharide unit
            modsum = sum(abs(refmods.resolve(t)['mono'] * mm) for t, mm in mods)
            tol = (1e-5 + 2e-6 * n_tab) if mono else 2e-3 + 2e-4 * z + 1e-3 * n_tab + 5e-6 * modsum
            if abs((m1 - m0) - exp) > tol:
                which = 'on-mods' if on_mods else 'residues-and-termini'
                r.fail('a global isotope label shifts the mass by (#atoms of the element) x (isotope mass difference)',
                       f'C12/label/{which}/{ion}' + ('' if mono else '/average'), ion=ion, charge=z, expected_shift=exp, got_shift=m1 - m0, **ctx)
                break
    r.nontrivial = affected
    r.classes = ['labels=' + '+'.join(sorted(_el(L) for L in labels))] + (['on-mods'] if on_mods else []) + \
        (['affected'] if affected else ['no-atom-affected']) + (['pair'] if len(labels) == 2 else [])
    # labels given as argument behave like labels in the string
    m_arg = pt.mass(s0, isotope_mods=list(labels), use_isotope_on_mods=on_mods, monoisotopic=mono, charge=0)
    m_str = pt.mass(s1, use_isotope_on_mods=on_mods, monoisotopic=mono, charge=0)
    if abs(m_arg - m_str) > 1e-9:
        r.fail('labels passed as argument equal labels written in the string', 'C12/label/argument-vs-string', argument=m_arg, string=m_str, **ctx)
    # ... for the composition too, also when a residual mass shift is turned into atoms (averagine) and the label is asked to reach them
    import warnings
    with warnings.catch_warnings():
        warnings.simplefilter('ignore')
        try:
            c_arg = pt.comp(s0, isotope_mods=list(labels), use_isotope_on_mods=on_mods, estimate_delta=True, charge=0)
            c_str = pt.comp(s1, use_isotope_on_mods=on_mods, estimate_delta=True, charge=0)
        except ValueError:
            c_arg = c_str = None
    if c_arg is not None:
        keys = set(c_arg) | set(c_str)
        if any(abs(c_arg.get(k, 0) - c_str.get(k, 0)) > 1e-9 for k in keys):
            bad = sorted(k for k in keys if abs(c_arg.get(k, 0) - c_str.get(k, 0)) > 1e-9)
            r.fail('labels passed as argument equal labels written in the string', 'C12/label/argument-vs-string/composition',
                   differing={k: [c_arg.get(k, 0), c_str.get(k, 0)] for k in bad[:6]}, **ctx)
    return r


def static_strategy():
    one = gen.mass_mod(('num', 'formula', 'unimod'), max_mult=1)
    st_plain = gen.mass_mod_text(('num', 'formula', 'unimod'), gt_ok=False)
    # free text after '|INFO:' may contain an '@' (the rule's target separator is the LAST '@')
    st_text = st.one_of(st_plain, st_plain, st_plain, st_plain.map(lambda t: t + '|INFO:ask a@b.org'))
    pm = gen.pep_model(alphabet=gen.AA20 + 'UO', min_len=1, max_len=20, kinds=('internal', 'nterm', 'cterm', 'static'), mod_strategy=one,
                       mod_list=st.lists(one, min_size=1, max_size=2), allow_empty=False, static_mod_text=st_text)

    @st.composite
    def strat(draw):
        pep = draw(pm)
        if not pep['static']:
            letters = sorted(set(pep['seq']))
            tg = draw(st.lists(st.sampled_from(letters + ['N-Term', 'C-Term']), min_size=1, max_size=3, unique=True))
            pep['static'] = [[[[draw(st_text), 1]], tg]]
        return {'pep': pep}
    return strat()


def label_strategy():
    one = gen.mass_mod(('num', 'formula', 'unimod', 'glycan'), max_mult=2, chnops=True)
    st_text = gen.mass_mod_text(('num', 'formula', 'unimod'), gt_ok=False, chnops=True)
    pm = gen.pep_model(alphabet=gen.AA20 + 'U', min_len=1, max_len=20, kinds=('internal', 'nterm', 'cterm', 'static'), mod_strategy=one,
                       mod_list=st.lists(one, min_size=1, max_size=2), allow_empty=False, static_mod_text=st_text)
    labels = st.one_of(st.lists(st.sampled_from(LABELS), min_size=1, max_size=1),
                       st.lists(st.sampled_from(LABELS), min_size=2, max_size=2, unique_by=_el))
    return st.fixed_dictionaries({'pep': pm, 'labels': labels, 'on_mods': st.booleans(), 'mono': st.sampled_from([True, True, False])})


def parts(tier):
    n = 4000 if tier == 'quick' else 150000
    return [
        Part(name='static-rules', kind='hyp', check_case=check_static, strategy=static_strategy, examples=n // 2),
        Part(name='isotope-labels', kind='hyp', check_case=check_label, strategy=label_strategy, examples=n // 2),
    ]
