"""
atheris campaign for C09 (coverage-guided; thorough tier).  usage:
    python -m pv.fuzz_c09 <report.json> <use_seed_corpus 0|1> <corpus_dir> [libFuzzer options...]
Bytes are decoded to token sequences by a data-provider layer so the fuzzer reaches the parser's logic;
the semantic oracle (C09's judge) runs inside the target.  The parser keeps no module state between
iterations.  atexit does not run under libFuzzer, so the report is rewritten every 2000 executions.
"""
import json
import os
import sys
import time

import atheris

with atheris.instrument_imports(include=['peptacular.proforma']):
    import peptacular as pt  # noqa

from pv.checks import c09
from pv.runner import Result

REPORT = sys.argv[1]
USE_SEED = sys.argv[2] == '1'
CORPUS = sys.argv[3]
TOK = c09.TOKENS + ['A', 'C', 'M', 'N-Term', 'C-Term', 'Formula:C2', '+15.995', 'INFO:x', '13C', 'Na+', 'Glycan:Hex', '0', '3', 'é', 'U:1']
state = {'executions': 0, 'nontrivial': 0, 'accepted': 0, 'samples': [], 'buckets': {}, 't0': time.time()}


def decode(data: bytes) -> str:
    fdp = atheris.FuzzedDataProvider(data)
    out = []
    n = fdp.ConsumeIntInRange(0, 40)
    for _ in range(n):
        if fdp.remaining_bytes() == 0:
            break
        k = fdp.ConsumeIntInRange(0, len(TOK) + 3)
        if k < len(TOK):
            out.append(TOK[k])
        else:
            out.append(fdp.ConsumeUnicodeNoSurrogates(2))
    return ''.join(out)


def dump():
    tmp = REPORT + '.tmp'
    with open(tmp, 'w') as fh:
        json.dump(state, fh)
    os.replace(tmp, REPORT)


def target(data: bytes):
    s = decode(data)
    r = Result()
    acc = c09.judge(r, s, 'fuzz')
    state['executions'] += 1
    if acc:
        state['accepted'] += 1
    if c09._nontrivial(s, acc):
        state['nontrivial'] += 1
        if len(state['samples']) < 5 and acc and len(s) > 6:
            state['samples'].append(s)
    for f in r.failures:
        b = state['buckets'].get(f.signature)
        if b is None or len(s) < b['size']:
            cnt = (b or {}).get('count', 0)
            state['buckets'][f.signature] = {'count': cnt + 1, 'clause': f.clause, 'case': {'s': s, 'kind': 'fuzz'}, 'detail': f.detail,
                                             'size': len(s), 'part': 'strings'}
        else:
            b['count'] += 1
    if state['executions'] % 2000 == 0:
        dump()


def main():
    if USE_SEED:
        # a few small valid strings from the repository's tests, encoded in the decoder's own format
        inv = {t: i for i, t in enumerate(TOK)}
        seeds = [['[', 'Oxidation', ']', '-', 'P', 'K', '[', '+15.995', ']', '/', '2'], ['<', '13C', '>', 'P', '(', 'K', 'P', ')', '[', '1', ']'],
                 ['{', 'Glycan:Hex', '}', '[', '1', ']', '?', 'P', 'K', '-', '[', '2', ']'], ['P', 'K', '/', '/', 'K', '+', 'P']]
        for i, toks in enumerate(seeds):
            with open(os.path.join(CORPUS, f'seed{i}'), 'wb') as fh:
                fh.write(bytes([len(toks)] + [inv[t] for t in toks]))
    dump()
    atheris.Setup([sys.argv[0], CORPUS] + sys.argv[4:], target)
    try:
        atheris.Fuzz()
    finally:
        dump()


if __name__ == '__main__':
    main()
