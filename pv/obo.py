"""
Independent minimal OBO reader (no peptacular import): id / name / tabulated masses / raw
composition string for the four bundled vocabularies.  Obsolete terms are skipped, as a user
reading the file would.
"""
import os
import re
from functools import lru_cache

from pv import refchem


def _terms(path):
    cur = None
    kind = None
    with open(path, encoding='utf-8') as fh:
        for line in fh:
            line = line.rstrip('\n').rstrip('\r')
            if line.startswith('['):
                if cur is not None and kind == '[Term]':
                    yield cur
                kind = line.strip()
                cur = {}
                continue
            if cur is None or not line.strip():
                continue
            k, sep, v = line.partition(': ')
            if not sep:
                continue
            cur.setdefault(k, []).append(v)
    if cur is not None and kind == '[Term]':
        yield cur


def _q(v):
    m = re.search(r'"([^"]*)"', v)
    return m.group(1).strip() if m else None


def _obsolete(t):
    return t.get('is_obsolete', ['false'])[0].strip() == 'true'


@lru_cache(None)
def unimod():
    """list of dict(id='1', name, mono, avg, comp_raw, comp (dict or None))"""
    out = []
    for t in _terms(os.path.join(refchem.data_dir(), 'unimod.obo')):
        if _obsolete(t) or 'id' not in t or 'name' not in t:
            continue
        name = t['name'][0]
        if name == 'unimod root node':
            continue
        x = {}
        for v in t.get('xref', []):
            k = v.split('"')[0].strip()
            x.setdefault(k, _q(v))
        e = dict(db='unimod', id=t['id'][0].replace('UNIMOD:', ''), name=name,
                 mono=float(x['delta_mono_mass']) if x.get('delta_mono_mass') else None,
                 avg=float(x['delta_avge_mass']) if x.get('delta_avge_mass') else None,
                 comp_raw=x.get('delta_composition'))
        e['comp'] = unimod_comp(e['comp_raw']) if e['comp_raw'] else None
        out.append(e)
    return out


# Unimod composition bricks that are not elements (unimod "bricks" table), as compositions
_BRICKS = {
    'Hex': {'C': 6, 'H': 10, 'O': 5}, 'HexNAc': {'C': 8, 'H': 13, 'N': 1, 'O': 5},
    'dHex': {'C': 6, 'H': 10, 'O': 4}, 'NeuAc': {'C': 11, 'H': 17, 'N': 1, 'O': 8},
    'NeuGc': {'C': 11, 'H': 17, 'N': 1, 'O': 9}, 'Pent': {'C': 5, 'H': 8, 'O': 4},
    'HexA': {'C': 6, 'H': 8, 'O': 6}, 'Kdn': {'C': 9, 'H': 14, 'O': 8},
    'Hep': {'C': 7, 'H': 12, 'O': 6}, 'Me': {'C': 1, 'H': 2}, 'Ac': {'C': 2, 'H': 2, 'O': 1},
    'Sulf': {'S': 1, 'O': 3}, 'Phos': {'H': 1, 'O': 3, 'P': 1}, 'Water': {'H': 2, 'O': 1},
    'HexN': {'C': 6, 'H': 11, 'N': 1, 'O': 4}, 'Kdo': {'C': 8, 'H': 12, 'O': 7},
}


def unimod_comp(raw):
    """'H(2) C(2) O' / '13C(6) H(-3) Hex(2)' -> dict with isotope keys like '13C', '2H' ; None if a brick is unknown"""
    out = {}
    for tok in raw.split():
        m = re.match(r'^([0-9]*[A-Za-z]+)(?:\((-?\d+)\))?$', tok)
        if not m:
            return None
        key, n = m.group(1), int(m.group(2)) if m.group(2) else 1
        if key in _BRICKS:
            for k, v in _BRICKS[key].items():
                out[k] = out.get(k, 0) + v * n
        elif re.match(r'^\d*[A-Z][a-z]?$', key):
            out[key] = out.get(key, 0) + n
        else:
            return None
    return {k: v for k, v in out.items() if v != 0}


@lru_cache(None)
def psimod():
    out = []
    for t in _terms(os.path.join(refchem.data_dir(), 'psi-mod.obo')):
        if _obsolete(t) or 'id' not in t or 'name' not in t:
            continue
        x = {}
        for v in t.get('xref', []):
            k = v.split('"')[0].strip().rstrip(':')
            if _q(v) is not None:
                x.setdefault(k, _q(v))

        def num(s):
            try:
                return float(s)
            except (TypeError, ValueError):
                return None

        raw = x.get('DiffFormula')
        if raw in (None, 'none'):
            raw = None
        e = dict(db='psimod', id=t['id'][0].replace('MOD:', ''), name=t['name'][0],
                 mono=num(x.get('DiffMono')), avg=num(x.get('DiffAvg')), comp_raw=raw)
        e['comp'] = psi_comp(raw) if raw else None
        out.append(e)
    return out


def psi_comp(raw):
    """'C 0 H 1 N 0 O 3 P 1' or '(13)C 6 H 2' -> dict ; None when not element/count pairs"""
    toks = raw.split()
    if len(toks) % 2:
        return None
    out = {}
    for k, n in zip(toks[::2], toks[1::2]):
        k = k.replace('(', '').replace(')', '')
        if not re.match(r'^\d*[A-Z][a-z]?$', k):
            return None
        try:
            n = int(n)
        except ValueError:
            return None
        out[k] = out.get(k, 0) + n
    return {k: v for k, v in out.items() if v != 0}


@lru_cache(None)
def xlmod():
    out = []
    for t in _terms(os.path.join(refchem.data_dir(), 'xlmod.obo')):
        if _obsolete(t) or 'id' not in t or 'name' not in t:
            continue
        x = {}
        for v in t.get('property_value', []):
            k = v.split('"')[0].strip().rstrip(':')
            if _q(v) is not None:
                x.setdefault(k, []).append(_q(v))
        mono = x.get('monoIsotopicMass', [None])[0]
        raw = (x.get('bridgeFormula') or x.get('deadEndFormula') or [None])[0]
        out.append(dict(db='xlmod', id=t['id'][0].replace('XLMOD:', ''), name=t['name'][0],
                        mono=float(mono) if mono else None, avg=None, comp_raw=raw, comp=None))
    return out


@lru_cache(None)
def monosaccharides():
    out = []
    for t in _terms(os.path.join(refchem.data_dir(), 'monosaccharides_updated.obo')):
        if _obsolete(t) or 'id' not in t or 'name' not in t:
            continue
        x = {}
        for v in t.get('property_value', []):
            k = v.split('"')[0].strip()
            x.setdefault(k, _q(v))
        syn = [_q(v) for v in t.get('synonym', [])]
        raw = x.get('has_chemical_formula')
        try:
            comp = refchem.parse_formula(raw) if raw else None
        except ValueError:
            comp = None
        out.append(dict(db='mono', id=t['id'][0].replace('MONO:', ''), name=t['name'][0],
                        mono=float(x['has_monoisotopic_mass']) if x.get('has_monoisotopic_mass') else None,
                        avg=float(x['has_average_mass']) if x.get('has_average_mass') else None,
                        comp_raw=raw, comp=comp, synonyms=[s for s in syn if s]))
    return out


def norm_comp(comp):
    """'2H' -> 'D' style differences do not matter for masses; normalise isotope keys for comparisons"""
    out = {}
    for k, v in comp.items():
        if k in ('2H',):
            k = 'D'
        elif k in ('3H',):
            k = 'T'
        out[k] = out.get(k, 0) + v
    return {k: v for k, v in out.items() if v != 0}
