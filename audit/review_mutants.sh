#!/bin/sh
# Re-runs the mutants with which the harness review demonstrated its gaps (audit/review_mutants/<pair>/*.diff): each is applied to a
# scratch copy of /repo/src (outside /repo and /verif, removed afterwards) and the quick checks of the two properties of the pair are
# run against it (PV_REPO_SRC).  Prints one line per mutant and writes audit/review_mutants/RESULTS.tsv.  Not registered in MANIFEST.
cd "$(dirname "$0")/.." || exit 2
OUT=audit/review_mutants/RESULTS.tsv
printf 'pair\tmutant\tverdict\tsignatures\n' > $OUT
for d in ${1:-audit/review_mutants/*/}; do
  pair=$(basename $d)
  props=$(echo $pair | tr '_' ' ')
  for m in $d*.diff; do
    SCR=$(mktemp -d /tmp/pvrev.XXXXXX)
    rsync -a --exclude __pycache__ /repo/src $SCR/
    ok=no
    for root in $SCR $SCR/src $SCR/src/peptacular; do
      for p in 1 0 2; do
        if (cd $root && patch -s -f --dry-run -p$p < /verif/$m >/dev/null 2>&1); then (cd $root && patch -s -f -p$p < /verif/$m >/dev/null 2>&1); ok=yes; break 2; fi
      done
    done
    if [ $ok = no ]; then verdict=PATCH-DOES-NOT-APPLY; sigs=; else
      verdict=MISSED; sigs=
      for c in $props; do
        out=$(PV_CASE_LIMIT=20 PV_REPO_SRC=$SCR/src ./check $c quick 2>&1)
        s=$(echo "$out" | grep '^  signature=' | awk '{print $1}' | sed 's/signature=//' | head -3 | tr '\n' ' ')
        if [ -n "$s" ]; then verdict=DETECTED; sigs="$sigs$s"; fi
      done
      if [ $verdict = MISSED ]; then   # "leaves its arguments alone" is C08's clause whatever the pair was
        s=$(PV_CASE_LIMIT=20 PV_REPO_SRC=$SCR/src ./check C08 quick 2>&1 | grep '^  signature=' | awk '{print $1}' | sed 's/signature=//' | head -3 | tr '\n' ' ')
        if [ -n "$s" ]; then verdict=DETECTED-BY-C08; sigs="$s"; fi
      fi
    fi
    printf '%s\t%s\t%s\t%s\n' "$pair" "$(basename $m .diff)" "$verdict" "$sigs" | tee -a $OUT
    rm -rf $SCR
    rm -f replays/*/new-*.json
  done
done
