#!/bin/sh
# One-line mutants (audit/sed_mutants.tsv: property, file, sed expression): each is applied to a scratch copy of /repo/src and the
# property's quick check must report a VIOLATION.  Writes audit/sed_mutants.log
HERE="$(cd "$(dirname "$0")/.." && pwd)"
LOG="$HERE/audit/sed_mutants.log"; : > "$LOG"
while IFS="$(printf '\t')" read -r id f expr; do
  [ -z "$id" ] && continue
  out=$("$HERE/tools/sedmut.sh" "$id" "$f" "$expr" 2>&1)
  if echo "$out" | grep -q "no change made"; then echo "$id $f NOCHANGE (pattern no longer matches)" >> "$LOG"; continue; fi
  v=$(echo "$out" | grep -c '^VIOLATION')
  echo "$id $f $( [ $v -gt 0 ] && echo DETECTED || echo MISSED ) $(echo "$out" | grep 'signature=' | head -1 | sed 's/ clause.*//')" >> "$LOG"
done < "$HERE/audit/sed_mutants.tsv"
rm -f "$HERE"/replays/*/new-*.json
cat "$LOG"
