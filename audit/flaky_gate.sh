#!/bin/sh
# Flakiness gate: every quick check, fresh process, seeds 1..N (default 5), on the unchanged tree.
# Requires exit 0 and no VIOLATION line.  Writes audit/flaky_gate.log ; exit 1 if any run was not quiet.
HERE="$(cd "$(dirname "$0")/.." && pwd)"
N="${1:-5}"
LOG="$HERE/audit/flaky_gate.log"
: > "$LOG"
bad=0
for id in C01 C02 C03 C04 C05 C06 C07 C08 C09 C10 C11 C12 C13 C14 C15 C16 C17 C18 C19 C20; do
  for s in $(seq 1 "$N"); do
    out=$(cd "$HERE" && VERIF_SEED=$s PYTHONHASHSEED=0 ./check $id quick 2>&1); rc=$?
    v=$(echo "$out" | grep -c '^VIOLATION')
    echo "$id seed=$s rc=$rc violations=$v $(echo "$out" | grep "$id quick seed" | sed 's/.*: //')" >> "$LOG"
    if [ $rc -ne 0 ] || [ $v -ne 0 ]; then bad=1; echo "$out" | grep -E 'VIOLATION|signature=|HARNESS' | head -5 >> "$LOG"; fi
  done
done
rm -f "$HERE"/replays/*/new-*.json
echo "gate $( [ $bad -eq 0 ] && echo PASSED || echo FAILED )" >> "$LOG"
tail -1 "$LOG"
exit $bad
