#!/venv/bin/python
"""
Systematic one-token mutants of the files the properties are anchored in.

phase 1 (generate + filter):  audit/mutate.py gen <n> <seed>
    draws n mutants (operator swaps, boundary shifts, dropped 'not', swapped booleans, off-by-one constants) on code lines
    outside docstrings/comments of the anchored files, applies each to a scratch copy of /repo/src + tests, and keeps the ones
    that still import and pass the pinned suite (111 passed).  16 in parallel.  Writes audit/mutation/survivors.json
phase 2 (check):              audit/mutate.py check
    for each survivor runs the quick checks of the properties anchored in the mutated file (PV_REPO_SRC on the scratch copy)
    until one reports a violation.  Writes audit/mutation/results.tsv (+ the diff of every missed mutant under missed/)
Scratch copies live under /tmp and are removed.
"""
import ast
import json
import multiprocessing as mp
import os
import random
import re
import shutil
import subprocess
import sys
import tempfile

HERE = os.path.dirname(os.path.dirname(os.path.abspath(__file__)))
OUT = os.path.join(HERE, 'audit', 'mutation')
REPO = '/repo'

OPS = [
    (r'==', '!='), (r'!=', '=='), (r'<=', '<'), (r'>=', '>'), (r'(?<![<>=!-])<(?![<=])', '<='), (r'(?<![<>=!-])>(?![>=])', '>='),
    (r'\band\b', 'or'), (r'\bor\b', 'and'), (r'\bnot ', ''), (r'\bTrue\b', 'False'), (r'\bFalse\b', 'True'),
    (r' \+ ', ' - '), (r' - ', ' + '), (r' \* ', ' + '), (r'\+= ', '-= '), (r'\b1\b', '2'), (r'\b0\b', '1'), (r' - 1\b', ''),
    (r' \+ 1\b', ''), (r'\bis not None\b', 'is None'), (r'\bis None\b', 'is not None'), (r'\bmin\(', 'max('), (r'\bmax\(', 'min('),
    (r'\.append\(', '.extend(['), (r'\bcontinue\b', 'pass'), (r'\bbreak\b', 'pass'), (r'\[1:\]', '[:]'), (r'\[:-1\]', '[:]'),
    (r'copy\.deepcopy\(([^()]*)\)', r'\1'), (r'\.copy\(\)', ''), (r'sorted\(([^()]*)\)', r'list(\1)'), (r'abs\(([^()]*)\)', r'(\1)'),
]


def anchored():
    files = {}
    for line in open(os.path.join(HERE, 'properties.jsonl')):
        p = json.loads(line)
        for f in p['anchors']['files']:
            if f.endswith('.py') and os.path.exists(os.path.join(REPO, f)):
                files.setdefault(f, []).append(p['id'])
    return files


def code_lines(path):
    """line numbers (1-based) that are code: not inside a docstring / string-only statement, not a comment, not an import"""
    src = open(path).read()
    tree = ast.parse(src)
    skip = set()
    for node in ast.walk(tree):
        if isinstance(node, ast.Expr) and isinstance(getattr(node, 'value', None), ast.Constant) and isinstance(node.value.value, str):
            skip.update(range(node.lineno, node.end_lineno + 1))
    out = []
    for i, line in enumerate(src.split('\n'), 1):
        st = line.strip()
        if i in skip or not st or st.startswith('#') or st.startswith('import ') or st.startswith('from ') or st.startswith('@') \
                or st.startswith('def ') or st.startswith('class ') or st.startswith('raise ') or 'warn' in st or st.startswith('"""'):
            continue
        out.append(i)
    return out


def candidates():
    cands = []
    for f, props in sorted(anchored().items()):
        path = os.path.join(REPO, f)
        lines = open(path).read().split('\n')
        for ln in code_lines(path):
            text = lines[ln - 1]
            code = text.split('  #')[0]
            for k, (pat, rep) in enumerate(OPS):
                for m in re.finditer(pat, code):
                    # not inside a string literal (rough: even number of quotes before)
                    before = code[:m.start()]
                    if before.count("'") % 2 or before.count('"') % 2:
                        continue
                    new = code[:m.start()] + re.sub(pat, rep, code[m.start():], count=1) + text[len(code):]
                    if new != text:
                        cands.append({'file': f, 'line': ln, 'op': k, 'old': text, 'new': new, 'props': props})
    return cands


def try_mutant(args):
    idx, mut = args
    scr = tempfile.mkdtemp(prefix='pvmut.', dir='/tmp')
    try:
        subprocess.run(['rsync', '-a', '--exclude', '__pycache__', f'{REPO}/src', f'{REPO}/tests', scr + '/'], check=True)
        path = os.path.join(scr, mut['file'])
        lines = open(path).read().split('\n')
        assert lines[mut['line'] - 1] == mut['old']
        lines[mut['line'] - 1] = mut['new']
        open(path, 'w').write('\n'.join(lines))
        env = dict(os.environ, PYTHONPATH=scr + '/src', PYTHONHASHSEED='0')
        try:
            p = subprocess.run(['/venv/bin/python', '-m', 'pytest', '-q', '-x', '-p', 'no:cacheprovider'], cwd=scr, env=env,
                               capture_output=True, text=True, timeout=180)
        except subprocess.TimeoutExpired:
            return idx, 'timeout'
        tail = p.stdout.strip().split('\n')[-1] if p.stdout.strip() else ''
        return idx, 'survives' if ('111 passed' in tail and ' failed' not in tail and 'error' not in tail) else 'killed-by-tests'
    except Exception as e:  # noqa
        return idx, 'error:' + type(e).__name__
    finally:
        shutil.rmtree(scr, ignore_errors=True)


def gen(n, seed):
    os.makedirs(OUT, exist_ok=True)
    cands = candidates()
    rnd = random.Random(seed)
    rnd.shuffle(cands)
    # spread over files: round-robin by file
    by_file = {}
    for c in cands:
        by_file.setdefault(c['file'], []).append(c)
    picked = []
    while len(picked) < n and any(by_file.values()):
        for f in sorted(by_file):
            if by_file[f] and len(picked) < n:
                picked.append(by_file[f].pop())
    with mp.Pool(16) as pool:
        res = dict(pool.imap_unordered(try_mutant, list(enumerate(picked))))
    surv = [dict(picked[i], id=i) for i in sorted(res) if res[i] == 'survives']
    stats = {}
    for v in res.values():
        stats[v] = stats.get(v, 0) + 1
    json.dump({'seed': seed, 'candidates': len(cands), 'drawn': len(picked), 'outcome_by_tests': stats, 'survivors': surv},
              open(os.path.join(OUT, 'survivors.json'), 'w'), indent=1)
    print(json.dumps({'candidates': len(cands), 'drawn': len(picked), 'outcome_by_tests': stats}))


def check():
    data = json.load(open(os.path.join(OUT, 'survivors.json')))
    os.makedirs(os.path.join(OUT, 'missed'), exist_ok=True)
    rows = []
    for mut in data['survivors']:
        scr = tempfile.mkdtemp(prefix='pvmut.', dir='/tmp')
        try:
            subprocess.run(['rsync', '-a', '--exclude', '__pycache__', f'{REPO}/src', scr + '/'], check=True)
            path = os.path.join(scr, mut['file'])
            lines = open(path).read().split('\n')
            lines[mut['line'] - 1] = mut['new']
            open(path, 'w').write('\n'.join(lines))
            env = dict(os.environ, PV_REPO_SRC=scr + '/src', PV_CASE_LIMIT='20')
            verdict, sig = 'MISSED', ''
            for pid in mut['props']:
                try:
                    p = subprocess.run([os.path.join(HERE, 'check'), pid, 'quick'], env=env, capture_output=True, text=True, timeout=900)
                except subprocess.TimeoutExpired:
                    verdict, sig = 'TIMEOUT', pid
                    break
                if p.returncode == 1 and 'VIOLATION' in p.stdout:
                    m = re.search(r'signature=(\S+)', p.stdout)
                    verdict, sig = 'DETECTED', f"{pid}:{m.group(1) if m else ''}"
                    break
                if p.returncode == 2:
                    verdict, sig = 'HARNESS-ERROR', pid + ' ' + p.stderr[-200:].replace('\n', ' ')
                    break
            rows.append((mut['id'], mut['file'], mut['line'], ','.join(mut['props']), verdict, sig, mut['old'].strip()[:90], mut['new'].strip()[:90]))
            if verdict != 'DETECTED':
                with open(os.path.join(OUT, 'missed', f"{mut['id']:04d}.txt"), 'w') as f:
                    f.write(f"{mut['file']}:{mut['line']}  props={mut['props']}  verdict={verdict} {sig}\n- {mut['old']}\n+ {mut['new']}\n")
            print(rows[-1], flush=True)
        finally:
            shutil.rmtree(scr, ignore_errors=True)
            for f in os.listdir(os.path.join(HERE, 'replays')):
                d = os.path.join(HERE, 'replays', f)
                for x in os.listdir(d):
                    if x.startswith('new-'):
                        os.remove(os.path.join(d, x))
    with open(os.path.join(OUT, 'results.tsv'), 'w') as f:
        f.write('id\tfile\tline\tproperties\tverdict\tsignature\told\tnew\n')
        for r in rows:
            f.write('\t'.join(str(x) for x in r) + '\n')
    tot = len(rows)
    det = sum(1 for r in rows if r[4] == 'DETECTED')
    print(f'{det}/{tot} surviving mutants detected')


if __name__ == '__main__':
    if sys.argv[1] == 'gen':
        gen(int(sys.argv[2]), int(sys.argv[3]))
    else:
        check()
